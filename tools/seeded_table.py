#!/usr/bin/env python3
"""seeded_table.py: regenerates the table of DESIGN.md §13 from seeded/*/meta.json (in place)."""
import json, glob, os, re
rows = []
for m in sorted(glob.glob("/verif/seeded/*/meta.json")):
    d = json.load(open(m)); name = os.path.basename(os.path.dirname(m))
    esc = lambda s: str(s).replace("|", "\\|").replace("\n", " ")
    det = ", ".join(d.get("detected_by") or []) or "none (by decision)"
    rows.append(f"| `{name}` | {d['property']} | {esc(d['breaks'])} | {esc(d['needs'])} | {det} | {esc(d.get('history',''))} |")
s = open("/verif/DESIGN.md").read()
head = "| seeded change | property | what it does | needs | caught by | history |\n|---|---|---|---|---|---|\n"
i = s.index(head) + len(head)
j = s.index("\n\n", i)
s = s[:i] + "\n".join(rows) + s[j:]
open("/verif/DESIGN.md", "w").write(s)
print(len(rows), "rows")
