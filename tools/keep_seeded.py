#!/usr/bin/env python3
"""keep_seeded.py <ID> <name> <json-meta>: copies a confirmed sub-agent change from /tmp/mut/<ID> into /verif/seeded/<name>/"""
import sys, os, shutil, json, subprocess
wid, name, meta = sys.argv[1], sys.argv[2], json.loads(sys.argv[3])
src = os.environ.get("MUTBASE","/tmp/mut") + f"/{wid}"; dst = f"/verif/seeded/{name}"
lid = wid.lower().split('-')[0]
os.makedirs(dst, exist_ok=True)
patch = subprocess.check_output(["git", "-C", src, "diff", "--", ".", f":!demo_{lid}"], text=True)
open(f"{dst}/patch.diff", "w").write(patch)
demo = f"{src}/demo_{lid}"
if os.path.isdir(demo):
    shutil.rmtree(f"{dst}/demo", ignore_errors=True)
    shutil.copytree(demo, f"{dst}/demo")
if os.path.exists(f"{src}/NOTES.md"):
    shutil.copy(f"{src}/NOTES.md", f"{dst}/NOTES.md")
meta.setdefault("base_commit", subprocess.check_output(["git", "-C", src, "rev-parse", "HEAD"], text=True).strip())
json.dump(meta, open(f"{dst}/meta.json", "w"), indent=1)
print("kept", dst)
