#!/usr/bin/env python3
"""Regenerates /verif/MANIFEST.json from the table below (single source of truth for what is claimed)."""
import json, os, subprocess
HOME = os.path.dirname(os.path.dirname(os.path.abspath(__file__)))

TB_A = "Trusted: Go toolchain/runtime, the harness's own T-recorder, directory digest, independent snapshot-file reader and slot model (kept tiny, unit-tested), kr/pretty and tidwall/pretty as formatters, VerifResetProcessState as a faithful 'new process' (engine B replays measure it)."
TB_B = "Trusted: Go toolchain and the real `go test` runner (it is the oracle for what ran), the offline event-log checker, the independent reader, the directory digest."
TB_C = "Trusted: Go race detector, porcupine v1.3.0, the AST instrumenter (syntactic, only adds yield points) and the token scheduler; exploration over recorded schedules, not exhaustive."

checks = {
 "C01": dict(engine="A", technique="runtime monitor: record/replay histories in lockstep with a slot model, T-recorder + directory digest as oracle", design="§5 C01",
   text="Seeded hostile histories are recorded and replayed against the real code in simulated processes; a monitor at the client boundary (T-recorder, digest) decides. Held-on-K-executions evidence, not a proof; the quantifier over all byte strings is sampled with class-directed generators.", note=TB_A),
 "C02": dict(engine="A", technique="runtime monitor: near-pair workload, exactly-one-Error + no-write oracle at the testingT/directory boundary", design="§5 C02",
   text="Tens of thousands of (stored, received) pairs differing by one minimal hostile edit, over all five entry points, colours on/off and every update-disabled mode; oracle is the recorded Error/Log signals plus a backdated-mtime digest. Exploration; one open finding (escape conflation) is recognised by a witness-specific predicate.", note=TB_A),
 "C03": dict(engine="A", technique="runtime monitor: lockstep slot model on outcomes + independent reader diff after every mutating call", design="§5 C03",
   text="Generated multi-process histories (confusable names, >9 ordinals, failing calls midway, re-executions, interleavings) are executed against the real code; every call's outcome is compared with a 15-line sequential model and the file with an independent reader. Exploration.", note=TB_A),
 "C04": dict(engine="A", technique="runtime monitor: update-run workload, lockstep slot model + independent reader + backdated-mtime digest (no-write oracle)", design="§5 C04",
   text="Recorded directories are re-run with updating enabled in each of the four ways while a random subset of values changes (shorter/longer/empty/terminator-like/1 MB); after every call the monitor compares outcome, file content via the independent reader and per-path mtime/inode, then a read-only run must pass without writing. Exploration.", note=TB_A),
 "C12": dict(engine="A", technique="runtime monitor: reflection fingerprint invariant at the call boundary + metamorphic shared-vs-fresh Config comparison over all sequences <=4", design="§5 C12",
   text="All 780 sequences of the five entry points x 48 option sets are executed twice (one shared Config vs a fresh identical Config per call); a fingerprint hook asserts the Config, an unrelated Config and WithConfig() are unchanged after every call and that paths, bytes and outcomes agree. The finite sequence space is swept completely (stated in evidence); concurrency is covered by C06's -race stress.", note=TB_A),
 "C13": dict(engine="A", technique="runtime monitor: independent report parser + opcode tiling/replay checker over the real prettyDiff; exhaustive 3-letter/len<=5 sweep", design="§5 C13",
   text="Every ordered pair of line sequences over {a,b,c} up to length 5 (132 496 pairs) plus tens of thousands of seeded hostile pairs go through the real diff code; an independent parser decides every clause (empty iff identical, counts, -/+ lines, remainders, opcode tiling, replay, hunk coverage). Exhaustive only for the stated finite part.", note=TB_A),
 "C14": dict(engine="A", technique="runtime monitor: metamorphic presentations (whitespace/member order/input form) + encoding/json tree oracle on stored text", design="§5 C14",
   text="Generated documents are stored through one presentation and replayed/re-recorded through another; stored text is decoded with encoding/json and compared (ordered when SortKeys is off) with the generator's tree; invalid documents must fail and write nothing in four modes. Exploration.", note=TB_A),
 "C15": dict(engine="A", technique="runtime monitor: tree-model oracle for matcher output (JSON via encoding/json, YAML via goccy ordered decode) + caller-buffer canary with guard regions", design="§5 C15",
   text="Matchers are applied to generated documents directly and through the snaps entry points; output must decode to set(input, path, placeholder) with order kept; sequences must equal the left-to-right model; a []byte input carved from a larger buffer must be byte-identical afterwards. Exploration.", note=TB_A),
 "C16": dict(engine="A", technique="runtime monitor: two-run metamorphic triples (masked-only change passes and writes nothing; unmasked change gives exactly one Error)", design="§5 C16",
   text="Triples D1/D2/D3 are generated from a tree and a mask set (Any/Type/Custom with placeholders incl. non-ASCII); oracle is the T-recorder plus the digest. Exploration.", note=TB_A),
 "C17": dict(engine="A", technique="runtime monitor: exactly-one-Error naming every failing matcher, no-write digest, follow-up ordinal check; ErrOnMissingPath(false) metamorphic equality", design="§5 C17",
   text="Documents with mixes of satisfiable and failing matchers in every order, four modes, three slot states, three entry points; oracle: error text names match.<Name>(\"<path>\") for each failing one, digest unchanged, next call lands in ordinal 2. Exploration.", note=TB_A),
 "C18": dict(engine="A", technique="runtime monitor: independent reader compares stored body with escape(input) byte for byte; 50x repeat-marshal equality for Go values; invalid-input no-write oracle", design="§5 C18",
   text="Hostile YAML texts stored verbatim next to a neighbour entry and replayed in fresh simulated processes; Go values marshalled 50 times across restarts must give one text; invalid YAML must fail and write nothing. Exploration.", note=TB_A),
 "C19": dict(engine="A", technique="runtime monitor: lockstep standalone histories - file k holds exactly the formatted bytes, nothing else moves (digest), json.Valid for JSON", design="§5 C19",
   text="Standalone histories (1-12 calls, re-executions, names with %, unicode, arbitrary bytes incl. CR) over record/update/replay processes; per call the monitor checks outcome, that file k holds exactly the formatted bytes and that no other path was touched. Exploration.", note=TB_A),
 "C05": dict(engine="B", technique="runtime monitor over real child processes: complete 1440-cell mode table with real CI/UPDATE_SNAPS environment, per-path directory-delta oracle (backdated mtimes) + Clean summary parser; strace as second witness (thorough)", design="§5 C05",
   text="The finite mode table is swept completely on every run: 16 real test processes (CI x UPDATE_SNAPS x Sort set through the real environment) x 90 cells each; the literal table decides the expected outcome and the allowed per-path writes in the Match phase and in the Clean phase. Complete over the table, sampled over values/names.", note=TB_B),
 "C07": dict(engine="B", technique="runtime monitor: event log of real go test processes + pre/post-Clean copies; offline checker that every addressed slot/file survives Clean unlisted; read-only follow-up process", design="§5 C07",
   text="Hundreds of generated programs (nested subtests, fuzz seeds, custom files/dirs/exts, standalone) are recorded, polluted with stale items, then run with -count/-run/every Clean mode; the offline checker compares what the log says was addressed with what is on disk and in the summary after Clean. Exploration.", note=TB_B),
 "C08": dict(engine="B", technique="runtime monitor: ownership map from a full recording run, real runner as oracle for what -run selects / what skipped, offline protection checker with witness-specific known-finding predicates", design="§5 C08",
   text="Generated programs are run with random skip sets and -run patterns; entries/files of tests that did not run for one of the two stated reasons must survive Clean unlisted; converse clause for sibling prefixes. Four genuine, non-repairable design limitations are recorded as open findings with narrow predicates; anything else is a violation. Exploration.", note=TB_B),
 "C09": dict(engine="B", technique="runtime monitor: stale-item oracle (event log + pre-Clean copy) vs Clean summary and post-Clean directory; decoy digest with backdated mtimes", design="§5 C09",
   text="Stale entries/files and decoys are planted around recorded snapshots; after the judged process the reported lists must equal the stale set, removals must equal the lists iff clean mode off CI, everything else must be untouched. Exploration.", note=TB_B),
 "C10": dict(engine="B", technique="runtime monitor: independent reader before/after Clean rewrites, natural-order comparator oracle, two-permutation metamorphic equality, second-Clean idempotence digest", design="§5 C10",
   text="Each case runs two permutations of the same directory through Clean (prune/sort modes) twice; surviving entries must keep bodies, order must be natural and independent of the initial order, untouched files keep their mtime, the second Clean writes nothing. Exploration.", note=TB_B),
 "C11": dict(engine="B", technique="runtime monitor: whole-tree creation digest of real programs vs the literal location function; failure-report footer resolution; launch from package dir / foreign dirs / -trimpath build", design="§5 C11",
   text="Real packages (two depths, helpers in test/non-test files and a sub-package, closures, goroutines, odd subtest names) x option sets x five entry points x three launch modes; the set of created files must equal the location function's set and the report footer must resolve to the same file. Exploration.", note=TB_B),
 "C20": dict(engine="B", technique="runtime monitor: exactly-once outcome classifier per call + conservation check between event-log tallies and Clean's printed totals/lists; -race builds in the thorough tier", design="§5 C20",
   text="Real processes with mixed outcomes (changed values, new slots, Update options, skips, parallel subtests, calls from goroutines, -count) followed by Clean in every mode; each call must classify to exactly one outcome and the summary totals and obsolete lists must equal the log's tallies and the stale oracle. Exploration.", note=TB_B),
 "C06": dict(engine="C", technique="runtime monitor: token scheduler over AST-inserted yield points (recorded, replayable grant lists; PCT/random/two-cut/site-cut strategies) + porcupine linearizability check of call/return history with final reads + Go race detector on free-running stress with seeded delays", design="§5 C06",
   text="The current sources of package snaps are instrumented at check time so every file-system and lock operation is a yield point; a controller runs one task at a time under seeded and targeted schedules, the client-boundary history plus one final read per slot is checked by porcupine against a sequential slot-store model, the final file by the independent reader, and a -race build of the same workloads runs unscheduled with injected delays. Exploration over schedules (recorded), not exhaustive.", note=TB_C),
}

PENDING = {}

def main():
    props = [json.loads(l) for l in open(os.path.join(HOME, "properties.jsonl"))]
    ids = [p["id"] for p in props]
    try:
        commits = subprocess.check_output(["git", "-C", "/repo", "log", "--format=%H %s"], text=True).splitlines()
    except Exception:
        commits = []
    hook_commits = [c.split()[0] for c in commits if c.split(" ", 1)[1].startswith("verif hooks")]
    m = {
     "version": 1,
     "setup_cmd": "cd /verif && ./setup.sh",
     "hooks": {
       "guard": "verif",
       "enable": "Go build tag: every check builds with `go test -c -tags verif` (harness module /verif/harness, `replace github.com/gkampitakis/go-snaps => /repo`). Hook files are new files only: snaps/verif_hooks.go, internal/difflib/verif_hooks.go. Engine C additionally instruments an overlay copy of the current sources at check time (nothing committed).",
       "baseline_off_cmd": "cd /repo && GOFLAGS=-mod=mod GOPROXY=off GOSUMDB=off go test -json -vet=off -count=1 -timeout 25m ./...",
       "source_commits": hook_commits,
       "add_only": True,
     },
     "engines": [
       {"name": "A-session", "path": "harness/enga", "serves_properties": [k for k,v in checks.items() if v["engine"]=="A"], "kind_free_text": "one test binary simulating many test processes in-process against the real code: T-recorder mock, lockstep reference models, directory digest around every call; sharded over 16 worker processes"},
       {"name": "B-program", "path": "harness/engb", "serves_properties": [k for k,v in checks.items() if v["engine"]=="B"], "kind_free_text": "generated real test packages run by the real go test runner as child processes; JSONL event log + offline checker"},
       {"name": "C-schedule", "path": "harness/engc", "serves_properties": [k for k,v in checks.items() if v["engine"]=="C"], "kind_free_text": "AST-instrumented overlay build; token scheduler over file-system/lock points + free-running -race stress; porcupine over recorded histories"},
     ],
     "checks": [],
     "not_applicable": [],
     "notes": "All verdicts are three-valued: exit 0 held on everything explored, exit 1 + VIOLATION line, exit 2 + INCONCLUSIVE line (build failure, worker death, too few observed cases). Known findings: /verif/known_findings.json (committed, never written at run time).",
    }
    for pid in ids:
        if pid in checks:
            c = checks[pid]
            m["checks"].append({
              "property_id": pid,
              "quick_cmd": f"./check {pid} quick",
              "thorough_cmd": f"./check {pid} thorough",
              "evidence_file": f"/verif/evidence/{pid}.json",
              "replay_cmd_template": "./check --replay {path}",
              "engine": {"A":"A-session","B":"B-program","C":"C-schedule"}[c["engine"]],
              "level_claimed": {"category": c.get("level","exploration"), "text": c["text"], "design_ref": "DESIGN.md " + c["design"]},
              "level_note": c["note"],
              "technique": c["technique"],
            })
        else:
            m["not_applicable"].append({"property_id": pid, "reason": PENDING.get(pid, "check not built yet in this round (runtime monitoring applies; see DESIGN.md §5) - not claimed until its monitor exists and is silent on the unchanged tree")})
    json.dump(m, open(os.path.join(HOME, "MANIFEST.json"), "w"), indent=1)
    print("MANIFEST.json:", len(m["checks"]), "checks,", len(m["not_applicable"]), "not claimed")

if __name__ == "__main__":
    main()
