#!/usr/bin/env python3
"""Regenerates /verif/MANIFEST.json from the table below (single source of truth for what is claimed)."""
import json, os, subprocess
HOME = os.path.dirname(os.path.dirname(os.path.abspath(__file__)))

TB_A = "Trusted: Go toolchain/runtime, the harness's own T-recorder, directory digest, independent snapshot-file reader and slot model (kept tiny, unit-tested), kr/pretty and tidwall/pretty as formatters, VerifResetProcessState as a faithful 'new process' (engine B replays measure it)."
TB_B = "Trusted: Go toolchain and the real `go test` runner (it is the oracle for what ran), the offline event-log checker, the independent reader, the directory digest."
TB_C = "Trusted: Go race detector, porcupine v1.3.0, the AST instrumenter (syntactic, only adds yield points) and the token scheduler; exploration over recorded schedules, not exhaustive."

checks = {
 "C01": dict(engine="A", technique="runtime monitor: record/replay histories in lockstep with a slot model, T-recorder + directory digest as oracle", design="§5 C01",
   text="Seeded hostile histories are recorded and replayed against the real code in simulated processes; a monitor at the client boundary (T-recorder, digest) decides. Held-on-K-executions evidence, not a proof; the quantifier over all byte strings is sampled with class-directed generators.", note=TB_A),
 "C02": dict(engine="A", technique="runtime monitor: near-pair workload, exactly-one-Error + no-write oracle at the testingT/directory boundary", design="§5 C02",
   text="Tens of thousands of (stored, received) pairs differing by one minimal hostile edit, over all five entry points, colours on/off and every update-disabled mode; oracle is the recorded Error/Log signals plus a backdated-mtime digest. Exploration; one open finding (escape conflation) is recognised by a witness-specific predicate.", note=TB_A),
 "C03": dict(engine="A", technique="runtime monitor: lockstep slot model on outcomes + independent reader diff after every mutating call", design="§5 C03",
   text="Generated multi-process histories (confusable names, >9 ordinals, failing calls midway, re-executions, interleavings) are executed against the real code; every call's outcome is compared with a 15-line sequential model and the file with an independent reader. Exploration.", note=TB_A),
}

PENDING = {}

def main():
    props = [json.loads(l) for l in open(os.path.join(HOME, "properties.jsonl"))]
    ids = [p["id"] for p in props]
    try:
        commits = subprocess.check_output(["git", "-C", "/repo", "log", "--format=%H %s"], text=True).splitlines()
    except Exception:
        commits = []
    hook_commits = [c.split()[0] for c in commits if c.split(" ", 1)[1].startswith("verif hooks")]
    m = {
     "version": 1,
     "setup_cmd": "cd /verif && ./setup.sh",
     "hooks": {
       "guard": "verif",
       "enable": "Go build tag: every check builds with `go test -c -tags verif` (harness module /verif/harness, `replace github.com/gkampitakis/go-snaps => /repo`). Hook files are new files only: snaps/verif_hooks.go, internal/difflib/verif_hooks.go. Engine C additionally instruments an overlay copy of the current sources at check time (nothing committed).",
       "baseline_off_cmd": "cd /repo && GOFLAGS=-mod=mod GOPROXY=off GOSUMDB=off go test -json -vet=off -count=1 -timeout 25m ./...",
       "source_commits": hook_commits,
       "add_only": True,
     },
     "engines": [
       {"name": "A-session", "path": "harness/enga", "serves_properties": [k for k,v in checks.items() if v["engine"]=="A"], "kind_free_text": "one test binary simulating many test processes in-process against the real code: T-recorder mock, lockstep reference models, directory digest around every call; sharded over 16 worker processes"},
       {"name": "B-program", "path": "harness/engb", "serves_properties": [k for k,v in checks.items() if v["engine"]=="B"], "kind_free_text": "generated real test packages run by the real go test runner as child processes; JSONL event log + offline checker"},
       {"name": "C-schedule", "path": "harness/engc", "serves_properties": [k for k,v in checks.items() if v["engine"]=="C"], "kind_free_text": "AST-instrumented overlay build; token scheduler over file-system/lock points + free-running -race stress; porcupine over recorded histories"},
     ],
     "checks": [],
     "not_applicable": [],
     "notes": "All verdicts are three-valued: exit 0 held on everything explored, exit 1 + VIOLATION line, exit 2 + INCONCLUSIVE line (build failure, worker death, too few observed cases). Known findings: /verif/known_findings.json (committed, never written at run time).",
    }
    for pid in ids:
        if pid in checks:
            c = checks[pid]
            m["checks"].append({
              "property_id": pid,
              "quick_cmd": f"./check {pid} quick",
              "thorough_cmd": f"./check {pid} thorough",
              "evidence_file": f"/verif/evidence/{pid}.json",
              "replay_cmd_template": "./check --replay {path}",
              "engine": {"A":"A-session","B":"B-program","C":"C-schedule"}[c["engine"]],
              "level_claimed": {"category": c.get("level","exploration"), "text": c["text"], "design_ref": "DESIGN.md " + c["design"]},
              "level_note": c["note"],
              "technique": c["technique"],
            })
        else:
            m["not_applicable"].append({"property_id": pid, "reason": PENDING.get(pid, "check not built yet in this round (runtime monitoring applies; see DESIGN.md §5) - not claimed until its monitor exists and is silent on the unchanged tree")})
    json.dump(m, open(os.path.join(HOME, "MANIFEST.json"), "w"), indent=1)
    print("MANIFEST.json:", len(m["checks"]), "checks,", len(m["not_applicable"]), "not claimed")

if __name__ == "__main__":
    main()
