#!/bin/bash
# seeded_eval.sh <ID> [check ids...]: confirms a sub-agent's seeded change in its worktree /tmp/mut/<ID>
# (suite passes with it, demo fails with it, demo passes without it), then runs the given checks against it.
export GOFLAGS=-mod=mod GOPROXY=off GOSUMDB=off GOTOOLCHAIN=local
id=$1; shift
base=${MUTBASE:-/tmp/mut}; wt=$base/$id
lid=$(echo $id | tr A-Z a-z)
cd $wt || exit 2
echo "== $id: library files changed: $(git diff --stat -- . ":!demo_$lid" | tail -1)"
pk=$(go list ./... 2>/dev/null | grep -v "demo_")
if go test -vet=off -count=1 $pk >$base/$id.suite.log 2>&1; then echo "suite with change: PASS"; else echo "suite with change: FAIL"; tail -5 $base/$id.suite.log; fi
rundemo() {
  if [ -x demo_$lid/run.sh ] || [ -f demo_$lid/run.sh ]; then (cd $wt && bash demo_$lid/run.sh) >$base/$id.demo.log 2>&1; else go test -vet=off -count=1 ./demo_$lid/ >$base/$id.demo.log 2>&1; fi
}
rundemo; echo "demo with change: exit $?"
git diff -- . ":!demo_$lid" > $base/$id.lib.patch
git apply -R $base/$id.lib.patch
rundemo; echo "demo without change: exit $?"
git apply $base/$id.lib.patch
cd /verif
for c in "$@"; do
  out=$(VERIF_REPO=$wt ./check $c quick 2>&1); rc=$?
  echo "check $c vs seeded $id: rc=$rc | $(echo "$out" | grep "violations by" | cut -c1-300) | $(echo "$out" | tail -1 | cut -c1-200)"
done
