#!/bin/bash
# thorough_seed.sh <seed> <ids...>: runs the thorough tier of the given checks with another seed (development aid)
seed=$1; shift
cd "$(dirname "$0")/.."
for id in "$@"; do
  out=$(VERIF_SEED=$seed ./check $id thorough 2>&1); rc=$?
  echo "rc=$rc $(echo "$out" | tail -1)"
  if [ $rc -ne 0 ]; then echo "$out" | grep -E "^(VIOLATION|INCONCLUSIVE|  kind|violations by)" | head -20 | cut -c1-600; fi
done
