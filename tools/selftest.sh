#!/bin/bash
# selftest.sh [tier]: applies every kept seeded change (seeded/*/patch.diff) to a scratch worktree of /repo's HEAD
# and runs the checks listed in its meta.json (detected_by) against it with VERIF_REPO; each must exit 1.
# Writes selftest-report.json. Scratch worktrees live under /tmp and are removed again.
tier=${1:-quick}
cd "$(dirname "$0")/.."
out=selftest-report.json
echo "[" > $out.tmp; first=1
for d in seeded/*/; do [ -f "$d/meta.json" ] || continue
  name=$(basename $d)
  wt=/tmp/selftest-$name
  git -C /repo worktree remove --force $wt >/dev/null 2>&1
  git -C /repo worktree add -q $wt HEAD || { echo "cannot create worktree"; exit 2; }
  if ! git -C $wt apply "$PWD/$d/patch.diff"; then echo "$name: patch does not apply to HEAD"; applied=false; else applied=true; fi
  for c in $(python3 -c "import json;print(' '.join(json.load(open('$d/meta.json'))['detected_by']))"); do
    start=$(date +%s)
    o=$(VERIF_REPO=$wt VERIF_SEED=${VERIF_SEED:-1} ./check $c $tier 2>&1); rc=$?
    end=$(date +%s)
    kinds=$(echo "$o" | grep "violations by" | cut -c1-300 | sed 's/"/\\"/g')
    echo "$name $c rc=$rc $((end-start))s $kinds"
    [ $first = 1 ] || echo "," >> $out.tmp; first=0
    echo "{\"seeded\":\"$name\",\"check\":\"$c\",\"tier\":\"$tier\",\"applied\":$applied,\"exit\":$rc,\"detected\":$([ $rc = 1 ] && echo true || echo false),\"seconds\":$((end-start)),\"kinds\":\"$kinds\"}" >> $out.tmp
  done
  git -C /repo worktree remove --force $wt
done
echo "]" >> $out.tmp; mv $out.tmp $out
python3 -c "
import json
r=json.load(open('$out'))
print(sum(1 for x in r if x['detected']), 'of', len(r), 'seeded/check pairs detected')"
