#!/bin/bash
# selftest_recent.sh <substring>...: tools/selftest.sh restricted to the seeded directories whose name contains one
# of the given substrings (e.g. -r13- -r14-); same report format, written to selftest-recent-report.json.
cd "$(dirname "$0")/.."
names=$(python3 - "$@" <<'PY'
import os,sys
for n in sorted(os.listdir('seeded')):
    if any(s in n for s in sys.argv[1:]) and os.path.isfile(f'seeded/{n}/meta.json'): print(n)
PY
)
echo "$(echo "$names" | wc -l) seeded changes selected"
out=selftest-recent-report.json
echo "[" > $out.tmp; first=1
for name in $names; do
  d=seeded/$name
  wt=/tmp/selftest-$name
  git -C /repo worktree remove --force $wt >/dev/null 2>&1
  git -C /repo worktree add -q $wt HEAD || { echo "cannot create worktree"; exit 2; }
  if ! git -C $wt apply "$PWD/$d/patch.diff"; then echo "$name: patch does not apply to HEAD"; applied=false; else applied=true; fi
  for c in $(python3 -c "import json;print(' '.join(json.load(open('$d/meta.json'))['detected_by']))"); do
    start=$(date +%s)
    o=$(VERIF_REPO=$wt VERIF_SEED=${VERIF_SEED:-1} ./check $c quick 2>&1); rc=$?
    end=$(date +%s)
    kinds=$(echo "$o" | grep "violations by" | cut -c1-300 | sed 's/"/\\"/g')
    echo "$name $c rc=$rc $((end-start))s $kinds"
    [ $first = 1 ] || echo "," >> $out.tmp; first=0
    echo "{\"seeded\":\"$name\",\"check\":\"$c\",\"tier\":\"quick\",\"applied\":$applied,\"exit\":$rc,\"detected\":$([ $rc = 1 ] && echo true || echo false),\"seconds\":$((end-start)),\"kinds\":\"$kinds\"}" >> $out.tmp
  done
  git -C /repo worktree remove --force $wt
done
echo "]" >> $out.tmp; mv $out.tmp $out
python3 -c "
import json
r=json.load(open('$out'))
print(sum(1 for x in r if x['detected']), 'of', len(r), 'seeded/check pairs detected')"
