package vkit

import (
	"fmt"
	"io"
	"strings"

	goyaml "github.com/goccy/go-yaml"
)

// ParseYAMLDocs decodes every document of a YAML stream into the harness tree,
// keeping member order (goccy's ordered-map decoding is the tree oracle for YAML).
func ParseYAMLDocs(text string) ([]*JNode, error) {
	dec := goyaml.NewDecoder(strings.NewReader(text), goyaml.UseOrderedMap())
	var out []*JNode
	for {
		var v any
		err := dec.Decode(&v)
		if err == io.EOF {
			return out, nil
		}
		if err != nil {
			return nil, err
		}
		out = append(out, yamlToTree(v))
	}
}

func yamlToTree(v any) *JNode {
	switch x := v.(type) {
	case goyaml.MapSlice:
		o := &JNode{Kind: "obj"}
		for _, it := range x {
			o.Keys = append(o.Keys, fmt.Sprint(it.Key))
			o.Vals = append(o.Vals, yamlToTree(it.Value))
		}
		return o
	case map[string]any:
		o := &JNode{Kind: "obj"}
		for _, k := range SortedKeys(x) {
			o.Keys = append(o.Keys, k)
			o.Vals = append(o.Vals, yamlToTree(x[k]))
		}
		return o
	case []any:
		a := &JNode{Kind: "arr"}
		for _, c := range x {
			a.Vals = append(a.Vals, yamlToTree(c))
		}
		return a
	case string:
		return &JNode{Kind: "str", S: x}
	case bool:
		return &JNode{Kind: "bool", S: fmt.Sprint(x)}
	case nil:
		return &JNode{Kind: "null"}
	case int, int64, uint64, int32, uint, uint32:
		return &JNode{Kind: "num", S: fmt.Sprint(x)}
	case float64:
		return &JNode{Kind: "num", S: fmt.Sprint(x)}
	case float32:
		return &JNode{Kind: "num", S: fmt.Sprint(x)}
	}
	return &JNode{Kind: "str", S: fmt.Sprintf("<%T:%v>", v, v)}
}
