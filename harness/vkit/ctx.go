package vkit

import (
	"encoding/json"
	"fmt"
	"hash/fnv"
	"math/rand/v2"
	"os"
	"path/filepath"
	"runtime/debug"
	"sort"
	"strconv"
	"strings"
)

// Witness describes one refuting observation.
type Witness struct {
	Property string `json:"property"`
	Kind     string `json:"kind"`            // which clause was refuted
	Class    string `json:"class,omitempty"` // known-findings predicate that recognised it ("" = none)
	Detail   string `json:"detail"`
	Engine   string `json:"engine"`
	Tier     string `json:"tier"`
	Seed     int64  `json:"seed"`
	Case     int    `json:"case"` // case index: the case is a pure function of (seed, case)
	Input    any    `json:"input,omitempty"`
}

// Partial is what one worker process reports to the orchestrator.
type Partial struct {
	Property     string             `json:"property"`
	Tier         string             `json:"tier"`
	Seed         int64              `json:"seed"`
	Shard        int                `json:"shard"`
	Shards       int                `json:"shards"`
	Evaluations  int                `json:"evaluations"`
	Nontrivial   []uint64           `json:"nontrivial"`
	Rule         string             `json:"rule"`
	Samples      []any              `json:"samples"`
	Counters     map[string]int64   `json:"counters"`
	Violations   []Witness          `json:"violations"`
	NViolations  int                `json:"n_violations"`
	ViolKinds    map[string]int     `json:"viol_kinds,omitempty"`
	Known        map[string]int     `json:"known"`
	KnownSample  map[string]Witness `json:"known_sample"`
	Inconclusive []string           `json:"inconclusive"`
	Exhaustive   map[string]bool    `json:"exhaustive,omitempty"`
	Assumptions  []string           `json:"assumptions,omitempty"`
	Extra        map[string]any     `json:"extra,omitempty"`
	Done         bool               `json:"done"`
}

// Finding is one entry of /verif/known_findings.json.
type Finding struct {
	Property string `json:"property"`
	Class    string `json:"class"`
	Status   string `json:"status"` // "open" | "fixed"
	What     string `json:"what"`
	Commit   string `json:"commit,omitempty"`
}

// LoadFindings reads the committed known-findings file. It is never written at run time.
func LoadFindings(home string) []Finding {
	var fs struct {
		Findings []Finding `json:"findings"`
	}
	b, err := os.ReadFile(filepath.Join(home, "known_findings.json"))
	if err != nil {
		return nil
	}
	if err := json.Unmarshal(b, &fs); err != nil {
		panic("known_findings.json: " + err.Error())
	}
	return fs.Findings
}

// Ctx is the per-worker run context.
type Ctx struct {
	P        Partial
	Engine   string
	OnlyCase int // >=0: replay exactly this case
	Home     string
	out      string
	curFile  string
	seen     map[uint64]struct{}
	findings []Finding
	maxSamp  int
	curCase  int
}

func envInt(k string, def int) int {
	if v := os.Getenv(k); v != "" {
		if n, err := strconv.Atoi(v); err == nil {
			return n
		}
	}
	return def
}

// NewCtxFromEnv builds the context from the VERIF_* environment the orchestrator sets.
func NewCtxFromEnv(engine string) *Ctx {
	c := &Ctx{Engine: engine, seen: map[uint64]struct{}{}, maxSamp: 4}
	c.P.Property = os.Getenv("VERIF_PROP")
	c.P.Tier = os.Getenv("VERIF_TIER")
	if c.P.Tier == "" {
		c.P.Tier = "quick"
	}
	c.P.Seed = int64(envInt("VERIF_SEED", 1))
	c.P.Shard = envInt("VERIF_SHARD", 0)
	c.P.Shards = envInt("VERIF_SHARDS", 1)
	c.OnlyCase = envInt("VERIF_ONLY_CASE", -1)
	c.Home = os.Getenv("VERIF_HOME")
	if c.Home == "" {
		c.Home = "/verif"
	}
	c.out = os.Getenv("VERIF_OUT")
	c.curFile = os.Getenv("VERIF_CURCASE")
	c.P.Counters = map[string]int64{}
	c.P.Known = map[string]int{}
	c.P.KnownSample = map[string]Witness{}
	c.findings = LoadFindings(c.Home)
	return c
}

func (c *Ctx) Thorough() bool { return c.P.Tier == "thorough" }

// N picks the case budget for the tier (overridable with VERIF_CASES for experiments).
func (c *Ctx) N(quick, thorough int) int {
	if n := envInt("VERIF_CASES", 0); n > 0 {
		return n
	}
	if c.Thorough() {
		return thorough
	}
	return quick
}

// Mine reports whether case i belongs to this worker; it also records the case
// index on disk before the case runs, so a process-fatal crash still names it.
func (c *Ctx) Mine(i int) bool {
	if c.OnlyCase >= 0 {
		if i != c.OnlyCase {
			return false
		}
	} else if i%c.P.Shards != c.P.Shard {
		return false
	}
	c.curCase = i
	if c.curFile != "" {
		os.WriteFile(c.curFile, []byte(strconv.Itoa(i)), 0o644)
	}
	return true
}

// Rand returns the PRNG of a case: a pure function of (seed, property, stream, case).
func (c *Ctx) Rand(stream string, i int) *rand.Rand {
	h := fnv.New64a()
	h.Write([]byte(c.P.Property + "/" + stream))
	return rand.New(rand.NewPCG(uint64(c.P.Seed)*0x9E3779B97F4A7C15+h.Sum64(), uint64(i)+1))
}

func Hash(parts ...any) uint64 {
	h := fnv.New64a()
	for _, p := range parts {
		fmt.Fprintf(h, "%v\x00", p)
	}
	return h.Sum64()
}

// Case counts one executed case; nontrivial cases are de-duplicated by hash.
func (c *Ctx) Case(hash uint64, nontrivial bool) {
	c.P.Evaluations++
	if nontrivial {
		if _, ok := c.seen[hash]; !ok {
			c.seen[hash] = struct{}{}
		}
	}
}

func (c *Ctx) Count(k string, n int) { c.P.Counters[k] += int64(n) }

// Sample keeps a few actual cases for the evidence file.
func (c *Ctx) Sample(x any) {
	if len(c.P.Samples) < c.maxSamp {
		c.P.Samples = append(c.P.Samples, x)
	}
}

// Note keeps a few free-text observations (shown in the evidence file).
func (c *Ctx) Note(msg string) {
	if c.P.Extra == nil {
		c.P.Extra = map[string]any{}
	}
	ns, _ := c.P.Extra["notes"].([]string)
	if len(ns) < 6 {
		c.P.Extra["notes"] = append(ns, msg)
	}
}

func (c *Ctx) Inconclusive(msg string) {
	if len(c.P.Inconclusive) < 20 {
		c.P.Inconclusive = append(c.P.Inconclusive, msg)
	}
}

// Violate records a refuting observation. class is the name of the
// known-findings predicate that recognised the witness ("" when none did); only
// an `open` entry of known_findings.json with that exact (property, class)
// turns it into a KNOWN-FINDING, everything else is a violation.
func (c *Ctx) Violate(kind, class, detail string, input any) {
	w := Witness{Property: c.P.Property, Kind: kind, Class: class, Detail: detail, Engine: c.Engine,
		Tier: c.P.Tier, Seed: c.P.Seed, Case: c.curCase, Input: input}
	if class != "" {
		for _, f := range c.findings {
			if f.Status == "open" && f.Property == c.P.Property && f.Class == class {
				c.P.Known[class]++
				if _, ok := c.P.KnownSample[class]; !ok {
					c.P.KnownSample[class] = w
				}
				return
			}
		}
	}
	c.P.NViolations++
	if c.P.ViolKinds == nil {
		c.P.ViolKinds = map[string]int{}
	}
	c.P.ViolKinds[kind+"/"+class]++
	if len(c.P.Violations) < 10 {
		c.P.Violations = append(c.P.Violations, w)
	}
}

// Guard runs one case and converts a panic of the code under test into a violation.
func (c *Ctx) Guard(input any, f func()) {
	defer func() {
		if r := recover(); r != nil {
			st := string(debug.Stack())
			if len(st) > 3000 {
				st = st[:3000]
			}
			kind := "panic"
			if !strings.Contains(st, "go-snaps") && !strings.Contains(st, "/repo/") {
				c.Inconclusive(fmt.Sprintf("harness panic in case %d: %v\n%s", c.curCase, r, st))
				return
			}
			c.Violate(kind, "", fmt.Sprintf("panic: %v\n%s", r, st), input)
		}
	}()
	f()
}

// Finish writes the partial result.
func (c *Ctx) Finish() {
	c.P.Nontrivial = make([]uint64, 0, len(c.seen))
	for h := range c.seen {
		c.P.Nontrivial = append(c.P.Nontrivial, h)
	}
	sort.Slice(c.P.Nontrivial, func(i, j int) bool { return c.P.Nontrivial[i] < c.P.Nontrivial[j] })
	c.P.Done = true
	b, err := json.Marshal(c.P)
	if err != nil {
		panic(err)
	}
	if c.out == "" {
		os.Stdout.Write(b)
		return
	}
	if err := os.WriteFile(c.out, b, 0o644); err != nil {
		panic(err)
	}
}

// Clip shortens long strings for witnesses and samples.
func Clip(s string, n int) string {
	if len(s) <= n {
		return s
	}
	return s[:n] + fmt.Sprintf("...(+%d bytes)", len(s)-n)
}

// Q quotes and clips.
func Q(s string) string { return Clip(strconv.Quote(s), 300) }
