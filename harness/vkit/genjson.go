package vkit

import (
	"bytes"
	"encoding/json"
	"fmt"
	"io"
	"math/big"
	"math/rand/v2"
	"sort"
	"strings"
)

// JNode is the harness's own JSON tree: ordered members, numbers kept as literals.
type JNode struct {
	Kind string   // obj arr str num bool null
	Keys []string // obj: decoded member names, in document order
	Vals []*JNode // obj / arr children
	S    string   // str: decoded value; num: literal; bool: "true"/"false"
}

var jsonKeys = []string{"a", "b", "c", "id", "name", "user", "items", "x.y", "we*rd", "q?", `back\slash`, `quo"te`, "ünï", "sp ace", "A", "0", "created_at", "nested", "k1", "k2", "k3", "k4", "%keys", "pct%"}
var jsonStrs = []string{"", "hello", "with \"quotes\"", "line\nbreak", "tab\there", "ünïcödé ✓", `back\slash`, "2024-01-01T00:00:00Z", "---", "[TestA - 1]", "<Any value>", "/slash", " sep", "emoji 🎉", "null", "123"}
var jsonNums = []string{"0", "-0", "1", "-1", "42", "3.14", "1e10", "1E+2", "1e-7", "0.000001", "12345678901234567890123", "1e400", "-2.5e-3", "100", "7"}

// JSONDoc draws a document tree and the hostile classes it carries.
func JSONDoc(r *rand.Rand, depth int, cl Classes) *JNode {
	x := r.IntN(100)
	if depth <= 0 && x < 60 {
		x = 60 + r.IntN(40)
	}
	switch {
	case x < 35:
		n := r.IntN(5)
		if n == 0 {
			cl["empty-object"] = true
		}
		used := map[string]bool{}
		o := &JNode{Kind: "obj"}
		for i := 0; i < n; i++ {
			k := pick(r, jsonKeys)
			if r.IntN(20) == 0 {
				k = ""
				cl["empty-key"] = true
			}
			if used[k] {
				continue
			}
			used[k] = true
			if strings.ContainsAny(k, `.*?\"`) {
				cl["key-needs-escape"] = true
			}
			if k != "" && k[0] >= 0x80 || strings.Contains(k, "ü") {
				cl["unicode-key"] = true
			}
			o.Keys = append(o.Keys, k)
			o.Vals = append(o.Vals, JSONDoc(r, depth-1, cl))
		}
		if depth <= 3 {
			cl["nesting>=2"] = true
		}
		return o
	case x < 60:
		n := r.IntN(5)
		if n == 0 {
			cl["empty-array"] = true
		}
		a := &JNode{Kind: "arr"}
		for i := 0; i < n; i++ {
			a.Vals = append(a.Vals, JSONDoc(r, depth-1, cl))
		}
		return a
	case x < 78:
		s := pick(r, jsonStrs)
		if strings.ContainsAny(s, "\"\\\n\t") {
			cl["string-escapes"] = true
		}
		return &JNode{Kind: "str", S: s}
	case x < 92:
		n := pick(r, jsonNums)
		if len(n) > 10 || strings.ContainsAny(n, "eE") || n == "-0" {
			cl["hostile-number"] = true
		}
		return &JNode{Kind: "num", S: n}
	case x < 97:
		return &JNode{Kind: "bool", S: pick(r, []string{"true", "false"})}
	default:
		return &JNode{Kind: "null"}
	}
}

// JSONObjectDoc draws a document whose root is an object with at least n members.
func JSONObjectDoc(r *rand.Rand, depth, n int, cl Classes) *JNode {
	for {
		d := JSONDoc(r, depth, cl)
		if d.Kind == "obj" && len(d.Keys) >= n {
			return d
		}
	}
}

func quoteJSON(s string) string {
	var b bytes.Buffer
	e := json.NewEncoder(&b)
	e.SetEscapeHTML(false)
	e.Encode(s)
	return strings.TrimSuffix(b.String(), "\n")
}

// Render serialises the tree. With r != nil insignificant whitespace is random
// and, when shuffle is set, object members are emitted in a random order.
func (n *JNode) Render(r *rand.Rand, shuffle bool) string {
	var sb strings.Builder
	n.render(&sb, r, shuffle)
	return sb.String()
}

func ws(r *rand.Rand) string {
	if r == nil {
		return ""
	}
	return pick(r, []string{"", "", " ", "  ", "\n", "\t", "\n  ", " \r\n "})
}

func (n *JNode) render(sb *strings.Builder, r *rand.Rand, shuffle bool) {
	switch n.Kind {
	case "obj":
		idx := make([]int, len(n.Keys))
		for i := range idx {
			idx[i] = i
		}
		if shuffle && r != nil {
			r.Shuffle(len(idx), func(i, j int) { idx[i], idx[j] = idx[j], idx[i] })
		}
		sb.WriteString("{" + ws(r))
		for c, i := range idx {
			if c > 0 {
				sb.WriteString("," + ws(r))
			}
			sb.WriteString(quoteJSON(n.Keys[i]) + ws(r) + ":" + ws(r))
			n.Vals[i].render(sb, r, shuffle)
			sb.WriteString(ws(r))
		}
		sb.WriteString("}")
	case "arr":
		sb.WriteString("[" + ws(r))
		for i, v := range n.Vals {
			if i > 0 {
				sb.WriteString("," + ws(r))
			}
			v.render(sb, r, shuffle)
			sb.WriteString(ws(r))
		}
		sb.WriteString("]")
	case "str":
		sb.WriteString(quoteJSON(n.S))
	case "num", "bool":
		sb.WriteString(n.S)
	default:
		sb.WriteString("null")
	}
}

// ParseJSON decodes text into a JNode with encoding/json's tokenizer (ordered
// members, literal numbers). It is the tree oracle: independent of gjson/sjson/pretty.
func ParseJSON(text string) (*JNode, error) {
	d := json.NewDecoder(strings.NewReader(text))
	d.UseNumber()
	n, err := parseJ(d)
	if err != nil {
		return nil, err
	}
	if _, err := d.Token(); err != io.EOF {
		return nil, fmt.Errorf("trailing data after document")
	}
	return n, nil
}

func parseJ(d *json.Decoder) (*JNode, error) {
	t, err := d.Token()
	if err != nil {
		return nil, err
	}
	switch v := t.(type) {
	case json.Delim:
		switch v {
		case '{':
			o := &JNode{Kind: "obj"}
			for d.More() {
				kt, err := d.Token()
				if err != nil {
					return nil, err
				}
				k, ok := kt.(string)
				if !ok {
					return nil, fmt.Errorf("non-string key")
				}
				c, err := parseJ(d)
				if err != nil {
					return nil, err
				}
				o.Keys = append(o.Keys, k)
				o.Vals = append(o.Vals, c)
			}
			if _, err := d.Token(); err != nil {
				return nil, err
			}
			return o, nil
		case '[':
			a := &JNode{Kind: "arr"}
			for d.More() {
				c, err := parseJ(d)
				if err != nil {
					return nil, err
				}
				a.Vals = append(a.Vals, c)
			}
			if _, err := d.Token(); err != nil {
				return nil, err
			}
			return a, nil
		}
		return nil, fmt.Errorf("unexpected delimiter %v", v)
	case string:
		return &JNode{Kind: "str", S: v}, nil
	case json.Number:
		return &JNode{Kind: "num", S: string(v)}, nil
	case bool:
		return &JNode{Kind: "bool", S: fmt.Sprint(v)}, nil
	case nil:
		return &JNode{Kind: "null"}, nil
	}
	return nil, fmt.Errorf("unexpected token %v", t)
}

func numEqual(a, b string) bool {
	if a == b {
		return true
	}
	ra, ok1 := new(big.Rat).SetString(a)
	rb, ok2 := new(big.Rat).SetString(b)
	return ok1 && ok2 && ra.Cmp(rb) == 0
}

// Equal compares two trees as JSON values. ordered=false ignores member order.
// It returns "" when equal, else the first differing path.
func (n *JNode) Equal(m *JNode, ordered bool) string { return jEqual(n, m, ordered, "$") }

func jEqual(a, b *JNode, ordered bool, path string) string {
	if a.Kind != b.Kind {
		return fmt.Sprintf("%s: kind %s vs %s", path, a.Kind, b.Kind)
	}
	switch a.Kind {
	case "str", "bool":
		if a.S != b.S {
			return fmt.Sprintf("%s: %q vs %q", path, a.S, b.S)
		}
	case "num":
		if !numEqual(a.S, b.S) {
			return fmt.Sprintf("%s: number %s vs %s", path, a.S, b.S)
		}
	case "arr":
		if len(a.Vals) != len(b.Vals) {
			return fmt.Sprintf("%s: length %d vs %d", path, len(a.Vals), len(b.Vals))
		}
		for i := range a.Vals {
			if d := jEqual(a.Vals[i], b.Vals[i], ordered, fmt.Sprintf("%s[%d]", path, i)); d != "" {
				return d
			}
		}
	case "obj":
		if len(a.Keys) != len(b.Keys) {
			return fmt.Sprintf("%s: %d members vs %d (%v vs %v)", path, len(a.Keys), len(b.Keys), a.Keys, b.Keys)
		}
		if ordered {
			for i := range a.Keys {
				if a.Keys[i] != b.Keys[i] {
					return fmt.Sprintf("%s: member %d is %q vs %q", path, i, a.Keys[i], b.Keys[i])
				}
				if d := jEqual(a.Vals[i], b.Vals[i], ordered, path+"."+a.Keys[i]); d != "" {
					return d
				}
			}
			return ""
		}
		bi := map[string]*JNode{}
		for i, k := range b.Keys {
			bi[k] = b.Vals[i]
		}
		for i, k := range a.Keys {
			bv, ok := bi[k]
			if !ok {
				return fmt.Sprintf("%s: member %q missing", path, k)
			}
			if d := jEqual(a.Vals[i], bv, ordered, path+"."+k); d != "" {
				return d
			}
		}
	}
	return ""
}

// Clone deep-copies the tree.
func (n *JNode) Clone() *JNode {
	c := &JNode{Kind: n.Kind, S: n.S, Keys: append([]string(nil), n.Keys...)}
	for _, v := range n.Vals {
		c.Vals = append(c.Vals, v.Clone())
	}
	return c
}

// JPath is one step list into a tree.
type JPath struct {
	Steps []JStep
}

type JStep struct {
	Key   string
	Index int
	IsIdx bool
}

// GJSON renders the path in gjson/sjson syntax, escaping the characters that
// are special there.
func (p JPath) GJSON() string {
	parts := make([]string, len(p.Steps))
	for i, s := range p.Steps {
		if s.IsIdx {
			parts[i] = fmt.Sprint(s.Index)
			continue
		}
		var sb strings.Builder
		for _, c := range s.Key {
			if strings.ContainsRune(`.*?\|#@!%<>=:`, c) {
				sb.WriteByte('\\')
			}
			sb.WriteRune(c)
		}
		parts[i] = sb.String()
	}
	return strings.Join(parts, ".")
}

// Paths lists every path into the tree (all nodes except the root).
func (n *JNode) Paths() []JPath {
	var out []JPath
	var walk func(x *JNode, pre []JStep)
	walk = func(x *JNode, pre []JStep) {
		switch x.Kind {
		case "obj":
			for i, k := range x.Keys {
				p := append(append([]JStep(nil), pre...), JStep{Key: k})
				out = append(out, JPath{p})
				walk(x.Vals[i], p)
			}
		case "arr":
			for i := range x.Vals {
				p := append(append([]JStep(nil), pre...), JStep{Index: i, IsIdx: true})
				out = append(out, JPath{p})
				walk(x.Vals[i], p)
			}
		}
	}
	walk(n, nil)
	return out
}

// At returns the node at path, or nil.
func (n *JNode) At(p JPath) *JNode {
	cur := n
	for _, s := range p.Steps {
		if s.IsIdx {
			if cur.Kind != "arr" || s.Index >= len(cur.Vals) {
				return nil
			}
			cur = cur.Vals[s.Index]
			continue
		}
		if cur.Kind != "obj" {
			return nil
		}
		found := false
		for i, k := range cur.Keys {
			if k == s.Key {
				cur = cur.Vals[i]
				found = true
				break
			}
		}
		if !found {
			return nil
		}
	}
	return cur
}

// Set replaces the node at path by v (tree model of "set path to placeholder").
func (n *JNode) Set(p JPath, v *JNode) bool {
	if len(p.Steps) == 0 {
		return false
	}
	parent := n.At(JPath{p.Steps[:len(p.Steps)-1]})
	if parent == nil {
		return false
	}
	s := p.Steps[len(p.Steps)-1]
	if s.IsIdx {
		if parent.Kind != "arr" || s.Index >= len(parent.Vals) {
			return false
		}
		parent.Vals[s.Index] = v
		return true
	}
	if parent.Kind != "obj" {
		return false
	}
	for i, k := range parent.Keys {
		if k == s.Key {
			parent.Vals[i] = v
			return true
		}
	}
	return false
}

// Delete removes the object member or array element at path.
func (n *JNode) Delete(p JPath) bool {
	if len(p.Steps) == 0 {
		return false
	}
	parent := n.At(JPath{p.Steps[:len(p.Steps)-1]})
	if parent == nil {
		return false
	}
	s := p.Steps[len(p.Steps)-1]
	if s.IsIdx {
		if parent.Kind != "arr" || s.Index >= len(parent.Vals) {
			return false
		}
		parent.Vals = append(parent.Vals[:s.Index], parent.Vals[s.Index+1:]...)
		return true
	}
	for i, k := range parent.Keys {
		if k == s.Key && parent.Kind == "obj" {
			parent.Keys = append(parent.Keys[:i], parent.Keys[i+1:]...)
			parent.Vals = append(parent.Vals[:i], parent.Vals[i+1:]...)
			return true
		}
	}
	return false
}

// FromGo converts a decoded Go value (as produced by encoding/json or handed to
// a placeholder) into a tree via encoding/json.
func FromGo(v any) (*JNode, error) {
	b, err := json.Marshal(v)
	if err != nil {
		return nil, err
	}
	return ParseJSON(string(b))
}

// InvalidJSON draws a text that is not a JSON document.
func InvalidJSON(r *rand.Rand) (string, string) {
	type c struct{ s, class string }
	cs := []c{
		{`{"a":1`, "truncated"}, {`{"a":1,}`, "trailing-comma"}, {`[1,2,]`, "trailing-comma"}, {`{"a":1} x`, "trailing-garbage"},
		{`{"a":1}{"b":2}`, "two-documents"}, {`nul`, "bare-word"}, {`tru`, "bare-word"}, {`{"a":01}`, "leading-zero"},
		{"{\"a\":\"x\x01y\"}", "raw-control-byte"}, {"\xef\xbb\xbf{\"a\":1}", "bom"}, {``, "empty"}, {`   `, "blank"},
		{`{a:1}`, "unquoted-key"}, {`{'a':1}`, "single-quotes"}, {`{"a":}`, "missing-value"}, {`[1 2]`, "missing-comma"},
		{`{"a":1e}`, "bad-number"}, {`{"a":+1}`, "bad-number"}, {`"unterminated`, "truncated"}, {`{"a":"\x"}`, "bad-escape"}, {`]`, "stray-bracket"},
		{`{"a":.5}`, "bad-number"}, {`{"a":1.}`, "bad-number"}, {`{"a" 1}`, "missing-colon"},
	}
	x := pick(r, cs)
	return x.s, x.class
}

// SortedKeys returns the keys of a class map.
func SortedKeys[M ~map[string]V, V any](m M) []string {
	out := make([]string, 0, len(m))
	for k := range m {
		out = append(out, k)
	}
	sort.Strings(out)
	return out
}
