package vkit

import (
	"testing"
)

// Unit tests of the trusted base: the independent reader, the escape, the slot
// model, the outcome classifier and the JSON tree oracle.

func TestParseSnapFile(t *testing.T) {
	file := "\n[TestA - 1]\nhello\n---\n\n[TestA - 2]\n\n---\n\n\n[TestB/x y - 10]\n[TestA - 1]\n/-/-/-/\nlast\n\n---\n"
	ents, torn := ParseSnapFile(file)
	if len(torn) != 0 {
		t.Fatalf("torn: %v", torn)
	}
	want := []SnapEntry{{"TestA - 1", "hello"}, {"TestA - 2", ""}, {"TestB/x y - 10", "[TestA - 1]\n/-/-/-/\nlast\n"}}
	if len(ents) != len(want) {
		t.Fatalf("got %v", ents)
	}
	for i := range want {
		if ents[i] != want[i] {
			t.Errorf("entry %d: got %+v want %+v", i, ents[i], want[i])
		}
	}
	if got := RenderSnapFile(want); func() bool { e, tr := ParseSnapFile(got); return len(tr) != 0 || len(e) != 3 || e[2] != want[2] }() {
		t.Errorf("render/parse round trip failed: %q", got)
	}
	for _, bad := range []string{"garbage\n", "\n[TestA - 1]\nbody\n", "\n[TestA - 1]\nx\n---\nstray\n", "\n[TestA - 1]\nx\n---"} {
		if _, torn := ParseSnapFile(bad); len(torn) == 0 {
			t.Errorf("%q should be torn", bad)
		}
	}
	if e, torn := ParseSnapFile(""); len(e) != 0 || len(torn) != 0 {
		t.Errorf("empty file")
	}
}

func TestEscape(t *testing.T) {
	cases := map[string]string{"---": "/-/-/-/", "a\n---\nb": "a\n/-/-/-/\nb", "----": "----", "--- ": "--- ", "x --- y": "x --- y", "---\n---": "/-/-/-/\n/-/-/-/", "": ""}
	for in, want := range cases {
		if got := Escape(in); got != want {
			t.Errorf("Escape(%q)=%q want %q", in, got, want)
		}
		if Unescape(Escape(in)) != in {
			t.Errorf("Unescape(Escape(%q)) != input", in)
		}
	}
	if Unescape("x /-/-/-/ y") != "x /-/-/-/ y" {
		t.Errorf("Unescape must be anchored to whole lines")
	}
}

func TestStoreModel(t *testing.T) {
	s := NewStore()
	if o := s.Match("f", "T - 1", "a", "a", false, true); o != Failed {
		t.Errorf("missing + no create: %s", o)
	}
	if o := s.Match("f", "T - 1", "a", "a", true, false); o != Added {
		t.Errorf("missing + create: %s", o)
	}
	if o := s.Match("f", "T - 1", "a", "a", false, false); o != Passed {
		t.Errorf("equal: %s", o)
	}
	if o := s.Match("f", "T - 1", "b", "b", true, false); o != Failed {
		t.Errorf("different + no update: %s", o)
	}
	if o := s.Match("f", "T - 1", "b", "b", false, true); o != Updated {
		t.Errorf("different + update: %s", o)
	}
	if e, _ := s.Get("f", "T - 1"); e.Text != "b" {
		t.Errorf("state after update: %+v", e)
	}
	if o := s.Match("g", "T - 1", "x", "x", true, true); o != Added || len(s.Files["f"]) != 1 {
		t.Errorf("files are independent")
	}
}

func TestPermTable(t *testing.T) {
	tr, fa := true, false
	type row struct {
		m      Mode
		opt    *bool
		cr, up bool
	}
	for _, r := range []row{
		{Mode{CI: true}, nil, false, false}, {Mode{CI: true, UpdateVar: "true"}, &tr, false, false},
		{Mode{}, nil, true, false}, {Mode{UpdateVar: "true"}, nil, true, true}, {Mode{UpdateVar: "clean"}, nil, true, false},
		{Mode{}, &tr, true, true}, {Mode{UpdateVar: "true"}, &fa, false, false}, {Mode{}, &fa, false, false},
	} {
		c, u := Perm(r.m, r.opt)
		if c != r.cr || u != r.up {
			t.Errorf("Perm(%+v,%v)=(%v,%v)", r.m, r.opt, c, u)
		}
	}
	if d, s := CleanPerm(Mode{UpdateVar: "clean"}, true); !d || !s {
		t.Error("clean off CI")
	}
	if d, s := CleanPerm(Mode{CI: true, UpdateVar: "clean"}, true); d || s {
		t.Error("clean on CI")
	}
	if d, _ := CleanPerm(Mode{UpdateVar: "other"}, false); d {
		t.Error("other value must not delete")
	}
}

func TestClassify(t *testing.T) {
	if Classify(Signals{}) != Passed {
		t.Error("passed")
	}
	if Classify(Signals{Logs: []string{"\x1b[32;1m✎ Snapshot added\x1b[0m"}}) != Added {
		t.Error("added")
	}
	if Classify(Signals{Logs: []string{"✎ Snapshot updated"}}) != Updated {
		t.Error("updated")
	}
	if Classify(Signals{Errors: []string{"x"}}) != Failed {
		t.Error("failed")
	}
	for _, s := range []Signals{{Errors: []string{"a", "b"}}, {Errors: []string{"a"}, Logs: []string{"✎ Snapshot added"}}, {Logs: []string{"something else"}}, {Logs: []string{"✎ Snapshot added", "✎ Snapshot added"}}, {Skips: []string{"Skip"}}} {
		if Classify(s) != Anomaly {
			t.Errorf("%+v should be an anomaly", s)
		}
	}
}

func TestJSONTree(t *testing.T) {
	d, err := ParseJSON(`{"b":[1,{"x.y":null}],"a":"s","n":1.50}`)
	if err != nil {
		t.Fatal(err)
	}
	e, _ := ParseJSON(`{ "a" : "s", "n": 15e-1, "b": [1, {"x.y": null}] }`)
	if diff := d.Equal(e, false); diff != "" {
		t.Errorf("unordered equality: %s", diff)
	}
	if diff := d.Equal(e, true); diff == "" {
		t.Errorf("ordered comparison must see the member order")
	}
	p := JPath{[]JStep{{Key: "b"}, {Index: 1, IsIdx: true}, {Key: "x.y"}}}
	if p.GJSON() != `b.1.x\.y` {
		t.Errorf("path rendering: %s", p.GJSON())
	}
	c := d.Clone()
	if !c.Set(p, &JNode{Kind: "str", S: "ph"}) || c.At(p).S != "ph" || d.At(p).Kind != "null" {
		t.Errorf("set / clone")
	}
	if _, err := ParseJSON(`{"a":1} x`); err == nil {
		t.Error("trailing garbage must be rejected")
	}
	if !c.Delete(JPath{[]JStep{{Key: "a"}}}) || len(c.Keys) != 2 {
		t.Errorf("delete")
	}
}
