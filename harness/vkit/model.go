package vkit

// Mode is the process-wide part of the C05 mode table.
type Mode struct {
	CI        bool   `json:"ci"`
	UpdateVar string `json:"update_var"` // UPDATE_SNAPS
}

// Perm is the literal transcription of the C05 statement for Match* calls:
// on CI nothing; Update(x) decides both; otherwise create yes, rewrite iff UPDATE_SNAPS=true.
func Perm(m Mode, opt *bool) (mayCreate, mayUpdate bool) {
	if m.CI {
		return false, false
	}
	if opt != nil {
		return *opt, *opt
	}
	return true, m.UpdateVar == "true"
}

// CleanPerm: Clean deletes obsolete items only off CI with UPDATE_SNAPS true|clean;
// sorts only off CI when asked to.
func CleanPerm(m Mode, sortOpt bool) (deletes, sorts bool) {
	if m.CI {
		return false, false
	}
	return m.UpdateVar == "true" || m.UpdateVar == "clean", sortOpt
}

// Slot is one entry of the model store.
type Slot struct {
	ID   string `json:"id"`
	Text string `json:"text"` // formatted value as handed to storage (before escaping)
	Raw  string `json:"raw"`  // body the documented format stores for it
}

// Store is the slot store model: file -> ordered entries. It knows nothing about
// framing; it is the sequential specification of Match* on multi-entry files and
// (with one slot per file) of the standalone variants.
type Store struct {
	Files map[string][]Slot
	// running ordinals: (file, test) -> calls made in the current execution
	ord map[[2]string]int
}

func NewStore() *Store {
	return &Store{Files: map[string][]Slot{}, ord: map[[2]string]int{}}
}

// NextOrdinal consumes the next ordinal of (file, test) in the running execution.
func (s *Store) NextOrdinal(file, test string) int {
	s.ord[[2]string{file, test}]++
	return s.ord[[2]string{file, test}]
}

// EndExecution resets the running ordinals of test (all files).
func (s *Store) EndExecution(test string) {
	for k := range s.ord {
		if k[1] == test {
			delete(s.ord, k)
		}
	}
}

// NewProcess forgets all running ordinals (a new test process).
func (s *Store) NewProcess() { s.ord = map[[2]string]int{} }

// Match applies one call to slot id of file and returns the expected outcome.
func (s *Store) Match(file, id, text, raw string, mayCreate, mayUpdate bool) string {
	ents := s.Files[file]
	for i := range ents {
		if ents[i].ID == id {
			if ents[i].Text == text {
				return Passed
			}
			if !mayUpdate {
				return Failed
			}
			ents[i].Text, ents[i].Raw = text, raw
			return Updated
		}
	}
	if !mayCreate {
		return Failed
	}
	s.Files[file] = append(ents, Slot{ID: id, Text: text, Raw: raw})
	return Added
}

// Get returns the slot with the given id.
func (s *Store) Get(file, id string) (Slot, bool) {
	for _, e := range s.Files[file] {
		if e.ID == id {
			return e, true
		}
	}
	return Slot{}, false
}

// Clone copies the store contents (not the running ordinals).
func (s *Store) Clone() *Store {
	c := NewStore()
	for f, es := range s.Files {
		c.Files[f] = append([]Slot(nil), es...)
	}
	return c
}
