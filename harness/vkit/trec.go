// Package vkit holds the shared pieces of the runtime-monitoring harness:
// recorders at the client boundary, the directory digest, the independent
// snapshot-file reader, reference models, generators and evidence plumbing.
package vkit

import (
	"fmt"
	"regexp"
	"strings"
	"sync"
)

// T is the T-recorder: a testingT implementation that records every signal a
// Match*/Skip* call sends to the test. It is safe for concurrent use.
type T struct {
	name string

	mu       sync.Mutex
	errors   []string
	logs     []string
	skips    []string
	cleanups []func()
	ncleanup int
}

func NewT(name string) *T { return &T{name: name} }

func (t *T) Helper()      {}
func (t *T) Name() string { return t.name }

func (t *T) Skip(args ...any) {
	t.mu.Lock()
	t.skips = append(t.skips, "Skip:"+fmt.Sprint(args...))
	t.mu.Unlock()
}

func (t *T) Skipf(format string, args ...any) {
	t.mu.Lock()
	t.skips = append(t.skips, "Skipf:"+fmt.Sprintf(format, args...))
	t.mu.Unlock()
}

func (t *T) SkipNow() {
	t.mu.Lock()
	t.skips = append(t.skips, "SkipNow")
	t.mu.Unlock()
}

func (t *T) Error(args ...any) {
	t.mu.Lock()
	t.errors = append(t.errors, fmt.Sprint(args...))
	t.mu.Unlock()
}

func (t *T) Log(args ...any) {
	t.mu.Lock()
	t.logs = append(t.logs, fmt.Sprint(args...))
	t.mu.Unlock()
}

func (t *T) Cleanup(f func()) {
	t.mu.Lock()
	t.cleanups = append(t.cleanups, f)
	t.ncleanup++
	t.mu.Unlock()
}

// Finish runs the registered cleanups last-in-first-out, as the real runner
// does when a test execution ends.
func (t *T) Finish() {
	// as testing.T does: last registered first, and a cleanup registered while the cleanups
	// run (a Match* call made from a cleanup callback registers one) runs next
	for {
		t.mu.Lock()
		n := len(t.cleanups)
		if n == 0 {
			t.mu.Unlock()
			return
		}
		f := t.cleanups[n-1]
		t.cleanups = t.cleanups[:n-1]
		t.mu.Unlock()
		f()
	}
}

// Signals is what one API call sent to the test.
type Signals struct {
	Errors   []string `json:"errors,omitempty"`
	Logs     []string `json:"logs,omitempty"`
	Skips    []string `json:"skips,omitempty"`
	Cleanups int      `json:"cleanups,omitempty"`
}

// Take returns the signals recorded since the last Take and clears them.
func (t *T) Take() Signals {
	t.mu.Lock()
	defer t.mu.Unlock()
	s := Signals{Errors: t.errors, Logs: t.logs, Skips: t.skips, Cleanups: t.ncleanup}
	t.errors, t.logs, t.skips, t.ncleanup = nil, nil, nil, 0
	return s
}

// Outcome kinds.
const (
	Passed  = "passed"
	Added   = "added"
	Updated = "updated"
	Failed  = "failed"
	Anomaly = "ANOMALY"
)

var ansiRE = regexp.MustCompile("\x1b\\[[0-9;]*m")

// StripANSI removes SGR colour sequences.
func StripANSI(s string) string { return ansiRE.ReplaceAllString(s, "") }

// Classify maps the signals of one Match* call to exactly one outcome, or
// Anomaly when they fit none of the four patterns of C20.
func Classify(s Signals) string {
	switch {
	case len(s.Skips) > 0:
		return Anomaly
	case len(s.Errors) == 0 && len(s.Logs) == 0:
		return Passed
	case len(s.Errors) == 1 && len(s.Logs) == 0:
		return Failed
	case len(s.Errors) == 0 && len(s.Logs) == 1:
		l := StripANSI(s.Logs[0])
		if strings.Contains(l, "Snapshot added") {
			return Added
		}
		if strings.Contains(l, "Snapshot updated") {
			return Updated
		}
	}
	return Anomaly
}
