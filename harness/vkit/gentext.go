package vkit

import (
	"fmt"
	"math/rand/v2"
	"sort"
	"strings"
)

// TextOpts steers the text generator.
type TextOpts struct {
	Headers  []string // header lines of slots that exist (or will exist) in the same file, e.g. "[TestA - 1]"
	CREOL    bool     // allow lines ending in \r (documented limitation for multi-entry files; on for standalone)
	NoHuge   bool     // no 70 kB / 1 MB lines
	NoHeader bool     // never emit lines equal to an addressed header (used where P-hdr would mask everything else)
	MaxLines int
}

type Classes map[string]bool

func (c Classes) List() []string {
	out := make([]string, 0, len(c))
	for k := range c {
		out = append(out, k)
	}
	sort.Strings(out)
	return out
}

func (c Classes) Hostile() bool { return len(c) > 0 }

var plainWords = []string{"alpha", "beta", "gamma", "hello world", "x", "0", "map[a:1]", "{", "}", "value: 1", "- item", "+ item", "@@ -1 +1 @@", "  indented", "a b  c"}

func pick[T any](r *rand.Rand, xs []T) T { return xs[r.IntN(len(xs))] }

// Line draws one line (no "\n" inside) and names its class ("" = plain).
func Line(r *rand.Rand, o TextOpts) (string, string) {
	x := r.IntN(100)
	switch {
	case x < 30:
		return pick(r, plainWords), ""
	case x < 36:
		return "", "blank-line"
	case x < 40:
		return pick(r, []string{" ", "   ", "\t", " \t "}), "ws-only-line"
	case x < 45:
		return "---", "terminator"
	case x < 47:
		// a run of adjacent terminator lines (returned as one multi-line chunk)
		return pick(r, []string{"---\n---", "---\n---\n---", "/-/-/-/\n---", "---\n/-/-/-/"}), "terminator-run"
	case x < 53:
		return "/-/-/-/", "escape-token"
	case x < 55:
		return pick(r, []string{"----", "--- ", " ---", "/-/-/-/ ", "--", "/-/-/-", "---x", "x---",
			// the terminator next to characters that Unicode-aware trimming removes
			"---\u00a0", "---\u200b", "\u00a0---", "---\u2028", "\ufeff---", "---\u0085", "---\v", "/-/-/-/\u00a0"}), "near-terminator"
	case x < 56:
		// a line that ends (or starts) with the terminator exactly at a 4096-byte chunk boundary
		// of a buffered reader: read in fragments, its last fragment IS `---`
		k := []int{4096, 8192, 4096 * 16, 4093, 4095, 4097}[r.IntN(6)]
		if r.IntN(3) == 0 {
			return "---" + strings.Repeat("c", k), "terminator-at-chunk-boundary"
		}
		return strings.Repeat("c", k) + pick(r, []string{"---", "---", "/-/-/-/"}), "terminator-at-chunk-boundary"
	case x < 58:
		// the terminator or its escape token INSIDE a line
		return pick(r, []string{"x --- y", "x /-/-/-/ y", "a/-/-/-/", "/-/-/-/b", "key: /-/-/-/ # c", "--- and /-/-/-/"}), "terminator-inside-line"
	case x < 66:
		if len(o.Headers) > 0 && !o.NoHeader {
			return pick(r, o.Headers), "addressed-header"
		}
		return pick(r, []string{"[Test - 1]", "[TestZ/q - 3]"}), "header-like"
	case x < 71:
		return pick(r, []string{"[", "]", "[x]", "[Test - ]", "[Test - x]", "[TestQ - 1] ", " [TestQ - 1]", "[]", "[TestQ-1]", "[TestQ - 1]\u00a0", "\ufeff[TestQ - 1]"}), "header-like"
	case x < 76:
		return pick(r, []string{"héllo wörld", "日本語", "emoji 🎉", "�", "a b", " "}), "utf8-multibyte"
	case x < 82:
		return pick(r, []string{"a\xffb", "a\xfeb", "\xc3", "\xe2\x82", "\xf0\x9f", "ok\x80", "\xff\xfe", "caf\xff au lait", "caf\uFFFD au lait"}), "invalid-utf8"
	case x < 85:
		return pick(r, []string{"a\rb", "\rstart", "x\r\ry"}), "cr-mid"
	case x < 88:
		return pick(r, []string{"a\x00b", "\x01\x02", "bell\x07", "\x1b[31mred\x1b[0m", "\x0b\x0c"}), "control-bytes"
	case x < 91:
		return pick(r, []string{"%d", "%!", "100%", "%s %v", "%%"}), "percent"
	case x < 94:
		if o.CREOL {
			return pick(r, []string{"line\r", "\r", "a\r\r"}), "cr-eol"
		}
		return pick(r, plainWords), ""
	case x < 97:
		if !o.NoHuge {
			n := 70000
			return strings.Repeat("L", n) + fmt.Sprint(r.IntN(10)), "long-line-70k"
		}
		return pick(r, plainWords), ""
	case x < 98:
		if !o.NoHuge {
			return strings.Repeat("M", 1<<20) + fmt.Sprint(r.IntN(10)), "long-line-1M"
		}
		return pick(r, plainWords), ""
	default:
		return fmt.Sprintf("rnd-%d", r.IntN(1000)), ""
	}
}

// Text draws a multi-line text and the set of hostile classes it carries.
func Text(r *rand.Rand, o TextOpts) (string, Classes) {
	cl := Classes{}
	max := o.MaxLines
	if max == 0 {
		max = 12
	}
	var n int
	switch x := r.IntN(10); {
	case x < 1:
		n = 0
	case x < 4:
		n = 1
	default:
		n = 1 + r.IntN(max)
	}
	lines := make([]string, 0, n)
	for i := 0; i < n; i++ {
		l, c := Line(r, o)
		if c != "" {
			cl[c] = true
		}
		lines = append(lines, l)
	}
	s := strings.Join(lines, "\n")
	if n == 0 {
		cl["empty"] = true
	}
	if r.IntN(5) == 0 {
		k := 1 + r.IntN(3)
		s = strings.Repeat("\n", k) + s
		cl["leading-newlines"] = true
	}
	if r.IntN(40) == 0 {
		// a value that starts with U+FEFF (the contents of a file saved "with BOM")
		s = "\uFEFF" + s
		cl["leading-byte-order-mark"] = true
	}
	if r.IntN(4) == 0 {
		k := 1 + r.IntN(3)
		s = s + strings.Repeat("\n", k)
		cl["trailing-newlines"] = true
	}
	if !o.CREOL {
		// the joined text must not contain "\r\n" or end in "\r" (documented limitation)
		for strings.Contains(s, "\r\n") {
			s = strings.ReplaceAll(s, "\r\n", "\r \n")
		}
		if strings.HasSuffix(s, "\r") {
			s += "."
		}
	}
	return s, cl
}

// NoCREOL rewrites s so that no line ends in a carriage return (the documented
// limitation of multi-entry snapshot files).
func NoCREOL(s string) string {
	for strings.Contains(s, "\r\n") {
		s = strings.ReplaceAll(s, "\r\n", "\r \n")
	}
	if strings.HasSuffix(s, "\r") {
		s += "."
	}
	return s
}

// Pair derives from s a text that differs from it in at least one byte, by one
// small hostile edit. The returned class names the edit.
func Pair(r *rand.Rand, s string, creol bool) (string, string) {
	for tries := 0; tries < 20; tries++ {
		t, c := pairOnce(r, s)
		if t == s {
			continue
		}
		if !creol && (strings.Contains(t, "\r\n") || strings.HasSuffix(t, "\r")) {
			continue
		}
		return t, c
	}
	return s + "x", "append-byte"
}

func pairOnce(r *rand.Rand, s string) (string, string) {
	b := []byte(s)
	switch r.IntN(18) {
	case 16, 17:
		// swap the escape token and the terminator wherever they occur, also inside a line
		if i := strings.Index(s, "/-/-/-/"); i >= 0 {
			return s[:i] + "---" + s[i+7:], "swap-escape-token-anywhere"
		}
		if i := strings.Index(s, "---"); i >= 0 {
			return s[:i] + "/-/-/-/" + s[i+3:], "swap-escape-token-anywhere"
		}
		return s + "\nx /-/-/-/ y", "append-line"
	case 14, 15:
		// keep only the first k lines (what a reader sees when it stops at a line it takes for a terminator)
		ls := strings.Split(s, "\n")
		if len(ls) < 2 {
			return s + "\ntail", "append-line"
		}
		k := 1 + r.IntN(len(ls)-1)
		return strings.Join(ls[:k], "\n"), "truncate-after-line"
	case 0:
		if len(b) == 0 {
			return "x", "insert-byte"
		}
		i := r.IntN(len(b))
		c := append([]byte{}, b...)
		c[i] ^= byte(1 << r.IntN(7))
		if c[i] == '\n' || c[i] == '\r' {
			c[i] = 'q'
		}
		return string(c), "flip-byte"
	case 1:
		i := r.IntN(len(b) + 1)
		return string(b[:i]) + pick(r, []string{"x", " ", "\t", "-", "\n"}) + string(b[i:]), "insert-byte"
	case 2:
		if len(b) == 0 {
			return "y", "insert-byte"
		}
		i := r.IntN(len(b))
		return string(b[:i]) + string(b[i+1:]), "delete-byte"
	case 3:
		return s + "\n", "add-trailing-newline"
	case 4:
		if strings.HasSuffix(s, "\n") {
			return s[:len(s)-1], "remove-trailing-newline"
		}
		return s + "\n\n", "add-trailing-newline"
	case 5:
		return "\n" + s, "add-leading-newline"
	case 6:
		ls := strings.Split(s, "\n")
		idx := []int{}
		for i, l := range ls {
			if l == "---" || l == "/-/-/-/" {
				idx = append(idx, i)
			}
		}
		if len(idx) == 0 {
			ls = append(ls, "---")
			return strings.Join(ls, "\n"), "append-terminator-line"
		}
		i := pick(r, idx)
		if ls[i] == "---" {
			ls[i] = "/-/-/-/"
		} else {
			ls[i] = "---"
		}
		return strings.Join(ls, "\n"), "swap-terminator-escape"
	case 7:
		// the replacement character where the other text has an invalid byte (both decode to
		// U+FFFD), in either direction
		if i := strings.Index(s, "\uFFFD"); i >= 0 && r.IntN(2) == 0 {
			return s[:i] + "\xff" + s[i+3:], "replacement-char-vs-invalid-byte"
		}
		if r.IntN(2) == 0 {
			for i := range b {
				if b[i] >= 0xf8 {
					return s[:i] + "\uFFFD" + s[i+1:], "replacement-char-vs-invalid-byte"
				}
			}
		}
		// change only an invalid-UTF-8 byte
		for i := range b {
			if b[i] >= 0xf8 {
				c := append([]byte{}, b...)
				if c[i] == 0xff {
					c[i] = 0xfe
				} else {
					c[i] = 0xff
				}
				return string(c), "invalid-utf8-only"
			}
		}
		return s + "\xff", "append-invalid-utf8"
	case 8:
		// whitespace-only change
		if i := strings.IndexByte(s, ' '); i >= 0 {
			return s[:i] + "  " + s[i+1:], "whitespace-only"
		}
		return s + " ", "whitespace-only"
	case 9:
		ls := strings.Split(s, "\n")
		i := r.IntN(len(ls))
		ls = append(ls[:i+1], ls[i:]...)
		return strings.Join(ls, "\n"), "duplicate-line"
	case 10:
		ls := strings.Split(s, "\n")
		if len(ls) < 2 {
			return s + "\nextra", "append-line"
		}
		i := r.IntN(len(ls))
		ls = append(ls[:i], ls[i+1:]...)
		return strings.Join(ls, "\n"), "delete-line"
	case 11:
		if i := strings.IndexByte(s, '\t'); i >= 0 {
			return s[:i] + " " + s[i+1:], "whitespace-only"
		}
		return s + "\t", "whitespace-only"
	case 12:
		ls := strings.Split(s, "\n")
		if len(ls) >= 2 {
			i := r.IntN(len(ls) - 1)
			ls[i], ls[i+1] = ls[i+1], ls[i]
			return strings.Join(ls, "\n"), "swap-lines"
		}
		return s + s, "double"
	default:
		if len(b) > 0 {
			i := r.IntN(len(b))
			c := append([]byte{}, b...)
			if c[i] != '\n' && c[i] != '\r' {
				c[i] = c[i] + 1
				if c[i] == '\n' || c[i] == '\r' {
					c[i] = 'z'
				}
			} else {
				return s + "!", "append-byte"
			}
			return string(c), "change-byte"
		}
		return "!", "append-byte"
	}
}

// ConfusableNames is the family of test names the history generators draw from.
var ConfusableNames = []string{"TestA", "TestAB", "TestA/b", "TestA/b#01", "TestA/b/c", "TestA_b", "Test1", "Test10", "Test2", "TestB", "TestB/sub_x", "TestA/b_1"}
