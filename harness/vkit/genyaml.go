package vkit

import (
	"fmt"
	"math/rand/v2"
	"strings"
)

// YAMLDoc draws a YAML text from composable snippets. The validity oracle is
// the goccy decoder (the caller checks); the generator only aims at the places
// where verbatim storage can break: `---` separators, block scalars containing
// terminator-like lines, comments, header-looking flow sequences, final newline.
func YAMLDoc(r *rand.Rand, headers []string, cl Classes) string {
	var docs []string
	nd := 1
	if r.IntN(4) == 0 {
		nd = 2 + r.IntN(2)
		cl["multi-document"] = true
	}
	for d := 0; d < nd; d++ {
		docs = append(docs, yamlOne(r, headers, cl))
	}
	var s string
	switch {
	case nd > 1:
		sep := "\n---\n"
		if r.IntN(4) == 0 {
			sep = "\n---\n---\n" // an empty document in between: two adjacent separator lines
			cl["adjacent-doc-separators"] = true
		}
		s = strings.Join(docs, sep)
		if r.IntN(3) == 0 {
			s = "---\n" + s
		}
	default:
		s = docs[0]
		if r.IntN(8) == 0 {
			s = "---\n" + s
			cl["leading-doc-separator"] = true
		}
	}
	if r.IntN(6) == 0 {
		// the stream ends with a separator line: an empty last document. Together with
		// the no-final-newline case below the text ends in a bare `---`
		s += "\n---"
		cl["trailing-doc-separator"] = true
	}
	switch r.IntN(4) {
	case 0:
		cl["no-final-newline"] = true
	case 1:
		s += "\n" + strings.Repeat("\n", 1+r.IntN(2))
		cl["trailing-blank-lines"] = true
	default:
		s += "\n"
	}
	return s
}

func yamlOne(r *rand.Rand, headers []string, cl Classes) string {
	var lines []string
	n := 1 + r.IntN(5)
	used := map[string]bool{}
	for i := 0; i < n; i++ {
		k := pick(r, []string{"a", "b", "name", "user", "items", "created", "count", "k1", "k2", "k3", "zeta", "alpha"})
		if used[k] {
			continue
		}
		used[k] = true
		switch x := r.IntN(14); {
		case x == 0:
			lines = append(lines, "# comment about "+k)
			lines = append(lines, k+": 1 # trailing comment")
			cl["comment"] = true
		case x == 1:
			lines = append(lines, k+": |", "  first", "  ---", "  last")
			cl["block-scalar-terminator"] = true
		case x == 2:
			lines = append(lines, k+": |", "  /-/-/-/", "  x")
			cl["block-scalar-escape-token"] = true
		case x == 3:
			lines = append(lines, k+":", "  - one", "  - two", "  - 3")
		case x == 4:
			lines = append(lines, k+":", "  n1: v", "  n2:", "    deep: true")
		case x == 5:
			lines = append(lines, k+": \"quoted: value\"")
		case x == 6:
			lines = append(lines, k+": 'single ''q'''")
		case x == 7:
			lines = append(lines, k+": [1, 2, three]")
			cl["flow-collection"] = true
		case x == 8:
			lines = append(lines, k+": {x: 1, y: two}")
			cl["flow-collection"] = true
		case x == 9:
			lines = append(lines, k+": &anc val", k+"_ref: *anc")
			cl["anchor-alias"] = true
		case x == 10:
			lines = append(lines, k+": "+pick(r, []string{"~", "null", "true", "3.5", "0x1F", "1e3", "\"\""}))
		case x == 11:
			lines = append(lines, k+": >-", "  folded", "  text")
		case x == 12:
			lines = append(lines, "", k+": after-blank")
			cl["inner-blank-line"] = true
		default:
			lines = append(lines, fmt.Sprintf("%s: v%d", k, r.IntN(100)))
		}
	}
	if r.IntN(12) == 0 {
		// a scalar document with a whole line equal to the escape token (stored unchanged,
		// and unescaped to `---` on the stored side when replayed)
		cl["escape-token-whole-line"] = true
		return pick(r, []string{"/-/-/-/", "first line\n/-/-/-/\nlast line", "/-/-/-/\nsecond"})
	}
	if r.IntN(10) == 0 {
		// a top-level flow sequence document that looks like an entry header
		h := "[TestQ - 1]"
		if len(headers) > 0 && r.IntN(2) == 0 {
			h = pick(r, headers)
			cl["addressed-header"] = true
		} else {
			cl["header-like"] = true
		}
		return h
	}
	return strings.Join(lines, "\n")
}

// InvalidYAML draws a text the YAML decoder must reject.
func InvalidYAML(r *rand.Rand) (string, string) {
	type c struct{ s, class string }
	cs := []c{
		{"a: [1, 2", "unclosed-flow"}, {"a: {x: 1", "unclosed-flow"}, {"a:\n\t- tab", "tab-indent"},
		{"a: 1\n  b: 2", "bad-indent"}, {"a: \"unterminated", "unclosed-quote"}, {"a: 'unterminated", "unclosed-quote"},
		{"- a\nb: 1", "seq-then-map"}, {"a: *undefined_alias", "undefined-alias"}, {"a: b: c: d", "nested-inline-map"},
		{"{a: 1}}", "extra-brace"}, {"a: 1\na: [", "unclosed-flow"},
	}
	x := pick(r, cs)
	return x.s, x.class
}

// YAMLTreeDoc draws a tree that the block-style emitter below can render:
// identifier keys, simple scalars, sequences of scalars / maps.
func YAMLTreeDoc(r *rand.Rand, depth int) *JNode {
	o := &JNode{Kind: "obj"}
	n := 1 + r.IntN(4)
	keys := []string{"a", "b", "c", "name", "user", "items", "count", "id", "k1", "k2", "meta", "tags"}
	r.Shuffle(len(keys), func(i, j int) { keys[i], keys[j] = keys[j], keys[i] })
	for i := 0; i < n; i++ {
		o.Keys = append(o.Keys, keys[i])
		o.Vals = append(o.Vals, yamlTreeVal(r, depth-1, true))
	}
	return o
}

func yamlScalar(r *rand.Rand) *JNode {
	switch r.IntN(6) {
	case 0:
		return &JNode{Kind: "num", S: pick(r, []string{"0", "1", "42", "7", "100"})}
	case 1:
		return &JNode{Kind: "num", S: pick(r, []string{"3.14", "0.5", "2.25"})}
	case 2:
		return &JNode{Kind: "bool", S: pick(r, []string{"true", "false"})}
	case 3:
		return &JNode{Kind: "null"}
	default:
		return &JNode{Kind: "str", S: pick(r, []string{"hello", "mock-user", "a b c", "x: y", "with \"q\"", "2024-01-01", "- dash", "#hash", "[TestA - 1]", "---", "<Type:float64>", "<Type:uint64>", "<Type:string>"})}
	}
}

func yamlTreeVal(r *rand.Rand, depth int, allowSeq bool) *JNode {
	x := r.IntN(10)
	switch {
	case x < 2 && depth > 0:
		o := &JNode{Kind: "obj"}
		n := 1 + r.IntN(3)
		for i := 0; i < n; i++ {
			o.Keys = append(o.Keys, fmt.Sprintf("n%d", i))
			o.Vals = append(o.Vals, yamlTreeVal(r, depth-1, true))
		}
		return o
	case x < 4 && depth > 0 && allowSeq:
		a := &JNode{Kind: "arr"}
		n := 1 + r.IntN(3)
		for i := 0; i < n; i++ {
			a.Vals = append(a.Vals, yamlTreeVal(r, depth-1, false))
		}
		return a
	default:
		return yamlScalar(r)
	}
}

// YAMLFromTree renders the tree in block style.
func YAMLFromTree(n *JNode) string {
	var sb strings.Builder
	yamlEmit(&sb, n, 0)
	return sb.String()
}

func yamlScalarText(n *JNode) string {
	switch n.Kind {
	case "str":
		return quoteJSON(n.S)
	case "null":
		return "null"
	default:
		return n.S
	}
}

func yamlEmit(sb *strings.Builder, n *JNode, ind int) {
	pad := strings.Repeat(" ", ind)
	switch n.Kind {
	case "obj":
		for i, k := range n.Keys {
			v := n.Vals[i]
			switch v.Kind {
			case "obj":
				sb.WriteString(pad + k + ":\n")
				yamlEmit(sb, v, ind+2)
			case "arr":
				sb.WriteString(pad + k + ":\n")
				yamlEmit(sb, v, ind+2)
			default:
				sb.WriteString(pad + k + ": " + yamlScalarText(v) + "\n")
			}
		}
	case "arr":
		for _, v := range n.Vals {
			switch v.Kind {
			case "obj":
				var inner strings.Builder
				yamlEmit(&inner, v, ind+2)
				s := inner.String()
				// first member goes on the dash line
				sb.WriteString(pad + "- " + strings.TrimPrefix(s, strings.Repeat(" ", ind+2)))
			default:
				sb.WriteString(pad + "- " + yamlScalarText(v) + "\n")
			}
		}
	}
}

// YAMLStyle records what the styled emitter did, by path (YAMLPath syntax).
type YAMLStyle struct {
	CommentedKeys map[string]bool // `key: # comment` with the (block) value on the following lines
	Flow          map[string]bool // collections written in flow style
}

// YAMLFromTreeStyled renders the same tree the way hand-written YAML looks: some
// scalar-only collections in flow style, some keys quoted, comment lines and trailing
// comments, an optional document start marker. The caller checks that the text still
// decodes to the tree.
func YAMLFromTreeStyled(r *rand.Rand, n *JNode) (string, *YAMLStyle) {
	st := &YAMLStyle{CommentedKeys: map[string]bool{}, Flow: map[string]bool{}}
	var sb strings.Builder
	yamlEmitStyled(r, &sb, n, 0, JPath{}, st)
	lines := strings.Split(strings.TrimSuffix(sb.String(), "\n"), "\n")
	var out []string
	if r.IntN(4) == 0 {
		out = append(out, "---")
	}
	for _, l := range lines {
		ind := l[:len(l)-len(strings.TrimLeft(l, " "))]
		if r.IntN(6) == 0 {
			out = append(out, ind+"# note: "+pick(r, []string{"x", "a: b", "- item", "[1]", "---"}))
		}
		if r.IntN(8) == 0 && !strings.HasSuffix(l, ":") && !strings.Contains(l, " # ") {
			l += " # " + pick(r, []string{"trailing", "t: 1", "#"})
		}
		out = append(out, l)
	}
	return strings.Join(out, "\n") + "\n", st
}

func scalarOnly(n *JNode) bool {
	for _, v := range n.Vals {
		if v.Kind == "obj" || v.Kind == "arr" {
			return false
		}
	}
	return len(n.Vals) > 0
}

func yamlKey(r *rand.Rand, k string) string {
	switch r.IntN(8) {
	case 0:
		return "\"" + k + "\""
	case 1:
		return "'" + k + "'"
	}
	return k
}

func yamlFlow(r *rand.Rand, n *JNode) string {
	var parts []string
	for i, v := range n.Vals {
		if n.Kind == "obj" {
			parts = append(parts, yamlKey(r, n.Keys[i])+": "+yamlScalarText(v))
		} else {
			parts = append(parts, yamlScalarText(v))
		}
	}
	if n.Kind == "obj" {
		return "{" + strings.Join(parts, ", ") + "}"
	}
	return "[" + strings.Join(parts, ", ") + "]"
}

func yamlEmitStyled(r *rand.Rand, sb *strings.Builder, n *JNode, ind int, at JPath, st *YAMLStyle) {
	pad := strings.Repeat(" ", ind)
	child := func(s JStep) JPath { return JPath{Steps: append(append([]JStep(nil), at.Steps...), s)} }
	switch n.Kind {
	case "obj":
		for i, k := range n.Keys {
			v := n.Vals[i]
			key := yamlKey(r, k)
			cp := child(JStep{Key: k})
			switch v.Kind {
			case "obj", "arr":
				if scalarOnly(v) && r.IntN(3) == 0 {
					sb.WriteString(pad + key + ": " + yamlFlow(r, v) + "\n")
					st.Flow[cp.YAMLPath()] = true
				} else {
					c := ""
					if r.IntN(8) == 0 {
						c = " # " + pick(r, []string{"about " + k, "#", "t: 1"})
						st.CommentedKeys[cp.YAMLPath()] = true
					}
					sb.WriteString(pad + key + ":" + c + "\n")
					yamlEmitStyled(r, sb, v, ind+2, cp, st)
				}
			default:
				sb.WriteString(pad + key + ": " + yamlScalarText(v) + "\n")
			}
		}
	case "arr":
		for i, v := range n.Vals {
			cp := child(JStep{IsIdx: true, Index: i})
			switch v.Kind {
			case "obj":
				if scalarOnly(v) && r.IntN(3) == 0 {
					sb.WriteString(pad + "- " + yamlFlow(r, v) + "\n")
					st.Flow[cp.YAMLPath()] = true
					continue
				}
				var inner strings.Builder
				yamlEmitStyled(r, &inner, v, ind+2, cp, st)
				sb.WriteString(pad + "- " + strings.TrimPrefix(inner.String(), strings.Repeat(" ", ind+2)))
			default:
				sb.WriteString(pad + "- " + yamlScalarText(v) + "\n")
			}
		}
	}
}

// YAMLPath renders a path in goccy's `$.a.b[1]` syntax.
func (p JPath) YAMLPath() string {
	var sb strings.Builder
	sb.WriteString("$")
	for _, s := range p.Steps {
		if s.IsIdx {
			fmt.Fprintf(&sb, "[%d]", s.Index)
		} else {
			sb.WriteString("." + s.Key)
		}
	}
	return sb.String()
}
