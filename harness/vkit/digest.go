package vkit

import (
	"crypto/sha256"
	"encoding/hex"
	"fmt"
	"io/fs"
	"os"
	"path/filepath"
	"sort"
	"syscall"
	"time"
)

// Backdated is the instant every observed file is set to before a step whose
// "no write at all" clause is judged: a file whose mtime is still Backdated and
// whose inode is unchanged was not written, whatever its bytes are.
var Backdated = time.Date(2001, 2, 3, 4, 5, 6, 0, time.UTC)

type Entry struct {
	Type  string `json:"type"` // "f" | "d" | "l" | "?"
	Mode  uint32 `json:"mode"`
	Size  int64  `json:"size"`
	SHA   string `json:"sha,omitempty"`
	Ino   uint64 `json:"ino"`
	Mtime int64  `json:"mtime_ns"`
}

// Digest maps a path (relative to the digested root, "." is the root) to its entry.
type Digest map[string]Entry

// TakeDigest walks root. A missing root yields an empty digest.
func TakeDigest(root string) Digest {
	d := Digest{}
	filepath.WalkDir(root, func(p string, de fs.DirEntry, err error) error {
		if err != nil {
			return nil
		}
		rel, _ := filepath.Rel(root, p)
		fi, err := os.Lstat(p)
		if err != nil {
			return nil
		}
		e := Entry{Mode: uint32(fi.Mode().Perm()), Size: fi.Size(), Mtime: fi.ModTime().UnixNano()}
		if st, ok := fi.Sys().(*syscall.Stat_t); ok {
			e.Ino = st.Ino
		}
		switch {
		case fi.Mode().IsRegular():
			e.Type = "f"
			if b, err := os.ReadFile(p); err == nil {
				h := sha256.Sum256(b)
				e.SHA = hex.EncodeToString(h[:])
			}
		case fi.IsDir():
			e.Type = "d"
			e.Size = 0
		case fi.Mode()&os.ModeSymlink != 0:
			e.Type = "l"
		default:
			e.Type = "?"
		}
		d[rel] = e
		return nil
	})
	return d
}

// Backdate sets the mtime of everything under root to Backdated.
func Backdate(root string) {
	var paths []string
	filepath.WalkDir(root, func(p string, de fs.DirEntry, err error) error {
		if err == nil {
			paths = append(paths, p)
		}
		return nil
	})
	// children first so directory mtimes are not disturbed afterwards
	for i := len(paths) - 1; i >= 0; i-- {
		os.Chtimes(paths[i], Backdated, Backdated)
	}
}

// Diff lists differences between two digests. With contentOnly only type and
// bytes are compared (a rewrite with identical bytes is not reported).
func (a Digest) Diff(b Digest, contentOnly bool) []string {
	var out []string
	for p, ea := range a {
		eb, ok := b[p]
		if !ok {
			out = append(out, "removed "+p)
			continue
		}
		if ea.Type != eb.Type {
			out = append(out, fmt.Sprintf("type %s %s->%s", p, ea.Type, eb.Type))
			continue
		}
		if ea.Type == "f" && (ea.SHA != eb.SHA || ea.Size != eb.Size) {
			out = append(out, "content "+p)
			continue
		}
		if contentOnly {
			continue
		}
		if ea.Mtime != eb.Mtime {
			out = append(out, "mtime "+p)
			continue
		}
		if ea.Ino != eb.Ino {
			out = append(out, "inode "+p)
		}
	}
	for p := range b {
		if _, ok := a[p]; !ok {
			out = append(out, "created "+p)
		}
	}
	sort.Strings(out)
	return out
}

// Written reports whether path p shows a write between a (taken after Backdate)
// and b: created, removed, other bytes, other inode or a fresh mtime.
func Written(a, b Digest, p string) bool {
	ea, oka := a[p]
	eb, okb := b[p]
	if oka != okb {
		return true
	}
	if !oka {
		return false
	}
	return ea.SHA != eb.SHA || ea.Ino != eb.Ino || ea.Mtime != eb.Mtime || ea.Size != eb.Size
}

// ScratchBase returns the directory scratch trees are created in.
func ScratchBase() string {
	if b := os.Getenv("VERIF_SCRATCH"); b != "" {
		return b
	}
	if fi, err := os.Stat("/dev/shm"); err == nil && fi.IsDir() {
		return "/dev/shm"
	}
	return os.TempDir()
}

// MkScratch creates a fresh scratch directory.
func MkScratch(prefix string) string {
	d, err := os.MkdirTemp(ScratchBase(), "verif-"+prefix+"-")
	if err != nil {
		panic(err)
	}
	return d
}
