package vkit

import (
	"fmt"
	"os"
	"strings"
)

// SnapEntry is one framed entry of a multi-entry snapshot file as the README's
// "Snapshots Structure" describes it: `[<id>]`, body lines, `---`.
type SnapEntry struct {
	ID   string `json:"id"`   // text between the brackets, e.g. "TestA/b - 2"
	Body string `json:"body"` // raw body: the lines between header and terminator joined by "\n" (still escaped)
}

// ParseSnapFile is the independent reader. It is written from the documented
// format, not from the library's scanner: outside an entry blank lines are
// skipped and a line of the form `[...]` opens an entry; inside an entry every
// line is body until a line equal to `---` closes it. Anything else is torn.
// It does not pin the number of blank separator lines.
func ParseSnapFile(content string) (entries []SnapEntry, torn []string) {
	if content == "" {
		return nil, nil
	}
	lines := strings.Split(content, "\n")
	// a well-formed file ends with "\n": the split leaves one trailing "".
	if lines[len(lines)-1] == "" {
		lines = lines[:len(lines)-1]
	} else {
		torn = append(torn, "file does not end with a newline")
	}
	inside := false
	var cur SnapEntry
	var body []string
	for i, l := range lines {
		if !inside {
			if l == "" {
				continue
			}
			if len(l) >= 2 && l[0] == '[' && l[len(l)-1] == ']' {
				inside = true
				cur = SnapEntry{ID: l[1 : len(l)-1]}
				body = body[:0]
				continue
			}
			torn = append(torn, fmt.Sprintf("line %d outside any entry: %.60q", i+1, l))
			continue
		}
		if l == "---" {
			cur.Body = strings.Join(body, "\n")
			entries = append(entries, cur)
			inside = false
			continue
		}
		body = append(body, l)
	}
	if inside {
		torn = append(torn, fmt.Sprintf("EOF inside entry [%s]", cur.ID))
	}
	return entries, torn
}

// ReadSnapFile parses the file at path; a missing file is an empty entry list.
func ReadSnapFile(path string) ([]SnapEntry, []string) {
	b, err := os.ReadFile(path)
	if err != nil {
		return nil, nil
	}
	return ParseSnapFile(string(b))
}

// Escape is the documented escape: a whole line equal to `---` is stored as
// `/-/-/-/` (README, "Snapshots Structure").
func Escape(s string) string {
	ls := strings.Split(s, "\n")
	for i, l := range ls {
		if l == "---" {
			ls[i] = "/-/-/-/"
		}
	}
	return strings.Join(ls, "\n")
}

// Unescape maps `/-/-/-/` lines back to `---`.
func Unescape(s string) string {
	ls := strings.Split(s, "\n")
	for i, l := range ls {
		if l == "/-/-/-/" {
			ls[i] = "---"
		}
	}
	return strings.Join(ls, "\n")
}

// RenderSnapFile writes entries in the library's own framing; used to seed
// pre-existing well-formed files.
func RenderSnapFile(entries []SnapEntry) string {
	var sb strings.Builder
	for _, e := range entries {
		sb.WriteString("\n[" + e.ID + "]\n" + e.Body + "\n---\n")
	}
	return sb.String()
}

// RenderSnapFileLoose lays the entries out the way a hand-edited or merged file may
// look: runs of blank lines between the entries and at both ends (readers skip them; a
// rewrite produces the shorter canonical form).
func RenderSnapFileLoose(r interface{ IntN(int) int }, entries []SnapEntry) string {
	var sb strings.Builder
	for _, e := range entries {
		sb.WriteString(strings.Repeat("\n", 1+r.IntN(16)) + "[" + e.ID + "]\n" + e.Body + "\n---\n")
	}
	sb.WriteString(strings.Repeat("\n", r.IntN(40)))
	return sb.String()
}

// FindEntries returns the indexes of entries with the given id.
func FindEntries(entries []SnapEntry, id string) []int {
	var out []int
	for i, e := range entries {
		if e.ID == id {
			out = append(out, i)
		}
	}
	return out
}

// SlotID renders the id of slot (name, k).
func SlotID(name string, k int) string { return fmt.Sprintf("%s - %d", name, k) }
