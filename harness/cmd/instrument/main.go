// instrument rewrites a copy of the current go-snaps `snaps` sources so that
// file-system and lock operations go through the instrumentation-point runtime
// of snaps/verif_hooks.go, and emits a `go build -overlay` file. It works on
// whatever the sources are now (stdlib go/ast only, syntactic):
//
//	statement whose header contains os.ReadFile/OpenFile/WriteFile/Remove/MkdirAll/ReadDir/Create/Open,
//	a method call Truncate/Seek/Write/WriteString/Stat/Sync on an *os.File identifier,
//	fmt.Fprintf to an *os.File identifier, or the head of a `for x.Scan()` loop
//	                                      -> verifPoint("<file>:<line> <callee>"); S
//	X.Lock() / X.RLock()                  -> verifLock(site, X.TryLock, X.Lock) / (X.TryRLock, X.RLock)
//	X.Unlock() / X.RUnlock()              -> X.Unlock(); verifUnlocked(site)
//	defer X.Unlock() / defer X.RUnlock()  -> defer func() { X.Unlock(); verifUnlocked(site) }()
//
// usage: instrument <repo> <outdir>   (prints the list of sites as JSON on stdout)
package main

import (
	"bytes"
	"encoding/json"
	"fmt"
	"go/ast"
	"go/parser"
	"go/printer"
	"go/token"
	"os"
	"path/filepath"
	"strings"
)

type site struct {
	Site string `json:"site"`
	Kind string `json:"kind"` // point | lock | rlock | unlock
}

var sites []site

var osFuncs = map[string]bool{"ReadFile": true, "OpenFile": true, "WriteFile": true, "Remove": true, "MkdirAll": true, "ReadDir": true, "Create": true, "Open": true, "Rename": true, "RemoveAll": true, "Mkdir": true}
var fileMethods = map[string]bool{"Truncate": true, "Seek": true, "Write": true, "WriteString": true, "Stat": true, "Sync": true, "WriteAt": true}

func sel(e ast.Expr) (x ast.Expr, name string, ok bool) {
	c, ok := e.(*ast.CallExpr)
	if !ok {
		return nil, "", false
	}
	s, ok := c.Fun.(*ast.SelectorExpr)
	if !ok {
		return nil, "", false
	}
	return s.X, s.Sel.Name, true
}

func exprString(fset *token.FileSet, e ast.Expr) string {
	var b bytes.Buffer
	printer.Fprint(&b, fset, e)
	return b.String()
}

type rewriter struct {
	fset  *token.FileSet
	file  string
	files map[string]bool // identifiers known to be *os.File in the current function
	scans map[string]bool // identifiers of scanners created over an *os.File in the current function
}

func (rw *rewriter) pos(n ast.Node) string {
	p := rw.fset.Position(n.Pos())
	return fmt.Sprintf("%s:%d", rw.file, p.Line)
}

func callStmt(name string, args ...ast.Expr) ast.Stmt {
	return &ast.ExprStmt{X: &ast.CallExpr{Fun: ast.NewIdent(name), Args: args}}
}

func strLit(s string) ast.Expr { return &ast.BasicLit{Kind: token.STRING, Value: fmt.Sprintf("%q", s)} }

// headerCallee looks for an instrumented call in the parts of a statement that
// execute before any nested block, and returns a label for it.
func (rw *rewriter) headerCallee(s ast.Stmt) string {
	var found string
	inspect := func(n ast.Node) {
		if n == nil {
			return
		}
		ast.Inspect(n, func(m ast.Node) bool {
			if found != "" {
				return false
			}
			switch m.(type) {
			case *ast.FuncLit, *ast.BlockStmt:
				return false
			}
			c, ok := m.(*ast.CallExpr)
			if !ok {
				return true
			}
			x, name, ok := sel(c)
			if !ok {
				return true
			}
			if id, ok := x.(*ast.Ident); ok {
				if id.Name == "os" && osFuncs[name] {
					found = "os." + name
					return false
				}
				if rw.files[id.Name] && fileMethods[name] {
					found = id.Name + "." + name
					return false
				}
				if id.Name == "fmt" && (name == "Fprintf" || name == "Fprint" || name == "Fprintln") && len(c.Args) > 0 {
					if a, ok := c.Args[0].(*ast.Ident); ok && rw.files[a.Name] {
						found = "fmt." + name
						return false
					}
				}
			}
			return true
		})
	}
	switch st := s.(type) {
	case *ast.IfStmt:
		inspect(st.Init)
		inspect(st.Cond)
	case *ast.ForStmt:
		inspect(st.Init)
		inspect(st.Cond)
		if found == "" && st.Cond != nil {
			// a scanner over a file reads from it in Scan: yield at the loop head
			// (scanners over in-memory readers and scanners handed to helpers do no I/O of their own)
			if x, name, ok := sel(st.Cond); ok && name == "Scan" {
				if id, ok := x.(*ast.Ident); ok && rw.scans[id.Name] {
					found = id.Name + ".Scan-loop"
				}
			}
		}
	case *ast.RangeStmt:
		inspect(st.X)
	case *ast.SwitchStmt:
		inspect(st.Init)
		inspect(st.Tag)
	case *ast.DeferStmt, *ast.GoStmt, *ast.BlockStmt, *ast.LabeledStmt, *ast.SelectStmt, *ast.TypeSwitchStmt:
	default:
		inspect(s)
	}
	return found
}

// noteFiles records identifiers assigned from os.OpenFile/Create/Open.
func (rw *rewriter) noteFiles(s ast.Stmt) {
	note := func(lhs []ast.Expr, rhs []ast.Expr) {
		if len(rhs) != 1 || len(lhs) == 0 {
			return
		}
		x, name, ok := sel(rhs[0])
		if !ok {
			return
		}
		if id, ok := x.(*ast.Ident); ok && id.Name == "os" && (name == "OpenFile" || name == "Create" || name == "Open") {
			if l, ok := lhs[0].(*ast.Ident); ok {
				rw.files[l.Name] = true
			}
		}
	}
	if as, ok := s.(*ast.AssignStmt); ok && len(as.Rhs) == 1 && len(as.Lhs) >= 1 {
		if c, ok := as.Rhs[0].(*ast.CallExpr); ok {
			for _, a := range c.Args {
				if id, ok := a.(*ast.Ident); ok && rw.files[id.Name] {
					if l, ok := as.Lhs[0].(*ast.Ident); ok {
						rw.scans[l.Name] = true
					}
				}
			}
		}
	}
	switch st := s.(type) {
	case *ast.AssignStmt:
		note(st.Lhs, st.Rhs)
	case *ast.IfStmt:
		if a, ok := st.Init.(*ast.AssignStmt); ok {
			note(a.Lhs, a.Rhs)
		}
	}
}

func (rw *rewriter) block(list []ast.Stmt) []ast.Stmt {
	var out []ast.Stmt
	for _, s := range list {
		rw.noteFiles(s)
		// lock / unlock forms
		if es, ok := s.(*ast.ExprStmt); ok {
			if x, name, ok := sel(es.X); ok && len(es.X.(*ast.CallExpr).Args) == 0 {
				switch name {
				case "Lock", "RLock":
					st := rw.pos(s) + " " + exprString(rw.fset, x) + "." + name
					kind, try := "lock", "TryLock"
					if name == "RLock" {
						kind, try = "rlock", "TryRLock"
					}
					sites = append(sites, site{st, kind})
					out = append(out, callStmt("verifLock", strLit(st), &ast.SelectorExpr{X: x, Sel: ast.NewIdent(try)}, &ast.SelectorExpr{X: x, Sel: ast.NewIdent(name)}))
					continue
				case "Unlock", "RUnlock":
					st := rw.pos(s) + " " + exprString(rw.fset, x) + "." + name
					sites = append(sites, site{st, "unlock"})
					out = append(out, s, callStmt("verifUnlocked", strLit(st)))
					continue
				}
			}
		}
		if ds, ok := s.(*ast.DeferStmt); ok {
			if x, name, ok := sel(ds.Call); ok && (name == "Unlock" || name == "RUnlock") && len(ds.Call.Args) == 0 {
				st := rw.pos(s) + " defer " + exprString(rw.fset, x) + "." + name
				sites = append(sites, site{st, "unlock"})
				out = append(out, &ast.DeferStmt{Call: &ast.CallExpr{Fun: &ast.FuncLit{
					Type: &ast.FuncType{Params: &ast.FieldList{}},
					Body: &ast.BlockStmt{List: []ast.Stmt{&ast.ExprStmt{X: ds.Call}, callStmt("verifUnlocked", strLit(st))}},
				}}})
				continue
			}
		}
		if callee := rw.headerCallee(s); callee != "" {
			st := rw.pos(s) + " " + callee
			sites = append(sites, site{st, "point"})
			out = append(out, callStmt("verifPoint", strLit(st)))
		}
		rw.nested(s)
		out = append(out, s)
	}
	return out
}

func (rw *rewriter) nested(s ast.Stmt) {
	switch st := s.(type) {
	case *ast.BlockStmt:
		st.List = rw.block(st.List)
	case *ast.IfStmt:
		st.Body.List = rw.block(st.Body.List)
		if st.Else != nil {
			rw.nested(st.Else)
		}
	case *ast.ForStmt:
		st.Body.List = rw.block(st.Body.List)
	case *ast.RangeStmt:
		st.Body.List = rw.block(st.Body.List)
	case *ast.SwitchStmt:
		for _, c := range st.Body.List {
			cc := c.(*ast.CaseClause)
			cc.Body = rw.block(cc.Body)
		}
	case *ast.TypeSwitchStmt:
		for _, c := range st.Body.List {
			cc := c.(*ast.CaseClause)
			cc.Body = rw.block(cc.Body)
		}
	case *ast.LabeledStmt:
		rw.nested(st.Stmt)
	}
}

func main() {
	if len(os.Args) < 3 {
		fmt.Fprintln(os.Stderr, "usage: instrument <repo> <outdir>")
		os.Exit(2)
	}
	repo, out := os.Args[1], os.Args[2]
	os.MkdirAll(out, 0o755)
	srcs, _ := filepath.Glob(filepath.Join(repo, "snaps", "*.go"))
	overlay := map[string]string{}
	for _, src := range srcs {
		base := filepath.Base(src)
		if strings.HasSuffix(base, "_test.go") || base == "verif_hooks.go" {
			continue
		}
		fset := token.NewFileSet()
		f, err := parser.ParseFile(fset, src, nil, parser.ParseComments)
		if err != nil {
			fmt.Fprintln(os.Stderr, err)
			os.Exit(1)
		}
		before := len(sites)
		for _, d := range f.Decls {
			fd, ok := d.(*ast.FuncDecl)
			if !ok || fd.Body == nil {
				continue
			}
			rw := &rewriter{fset: fset, file: base, files: map[string]bool{}, scans: map[string]bool{}}
			if fd.Type.Params != nil {
				for _, p := range fd.Type.Params.List {
					if exprString(fset, p.Type) == "*os.File" {
						for _, n := range p.Names {
							rw.files[n.Name] = true
						}
					}
				}
			}
			fd.Body.List = rw.block(fd.Body.List)
		}
		if len(sites) == before {
			continue
		}
		var buf bytes.Buffer
		// comments are dropped: positions of inserted nodes would misplace them
		f.Comments = nil
		if err := printer.Fprint(&buf, fset, f); err != nil {
			fmt.Fprintln(os.Stderr, err)
			os.Exit(1)
		}
		dst := filepath.Join(out, base)
		os.WriteFile(dst, buf.Bytes(), 0o644)
		overlay[src] = dst
	}
	ob, _ := json.MarshalIndent(map[string]any{"Replace": overlay}, "", " ")
	os.WriteFile(filepath.Join(out, "overlay.json"), ob, 0o644)
	sb, _ := json.MarshalIndent(sites, "", " ")
	os.WriteFile(filepath.Join(out, "sites.json"), sb, 0o644)
	fmt.Println(string(sb))
}
