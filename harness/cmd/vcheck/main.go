// vcheck is the orchestrator behind /verif/check: it rebuilds the engine binary
// from /repo's current working tree (build tag verif), runs worker processes,
// merges what their monitors observed into /verif/evidence/<ID>.json, writes a
// replay file per violation and maps the verdict to the exit code:
// 0 held on everything explored, 1 violation, 2 inconclusive.
package main

import (
	"bytes"
	"encoding/json"
	"fmt"
	"os"
	"os/exec"
	"path/filepath"
	"runtime"
	"sort"
	"strconv"
	"strings"
	"sync"
	"time"

	"verifharness/vkit"
)

type checkDef struct {
	Engine   string // A | B | C
	Pkg      string // package of the worker test binary
	Race     bool   // build the worker with -race
	RaceThor bool   // -race only in the thorough tier
	Shards   int    // 0 = NumCPU
	Level    string
	MinEvals int // floor on observed cases: fewer is inconclusive, not "held"
	Exhaust  bool
	Overlay  bool // build package snaps from the AST-instrumented overlay (engine C)
	RacePart bool // additionally run workers of a -race build with VERIF_RACE_BUILD=1 and merge them
	RaceN    int  // number of workers of the race part
	Extra    []extraPart
}

// extraPart is an additional group of workers from another engine package whose
// partial results are merged into the same verdict and evidence.
type extraPart struct {
	Pkg     string
	N       int
	Env     []string
	Flags   []string // extra build flags (e.g. -trimpath); the binary gets its own name
	Overlay bool     // build with the instrumentation overlay
}

var defs = map[string]checkDef{
	"C01": {Engine: "A", Pkg: "./enga", MinEvals: 1000},
	"C02": {Engine: "A", Pkg: "./enga", MinEvals: 1000},
	"C03": {Engine: "A", Pkg: "./enga", MinEvals: 200},
	"C04": {Engine: "A", Pkg: "./enga", MinEvals: 200},
	"C05": {Engine: "B", Pkg: "./engb", MinEvals: 4320, Exhaust: true},
	"C07": {Engine: "B", Pkg: "./engb", MinEvals: 100},
	"C08": {Engine: "B", Pkg: "./engb", MinEvals: 100},
	"C09": {Engine: "B", Pkg: "./engb", MinEvals: 100},
	"C10": {Engine: "B", Pkg: "./engb", MinEvals: 100},
	"C20": {Engine: "B", Pkg: "./engb", MinEvals: 100},
	"C11": {Engine: "B", Pkg: "./engb", MinEvals: 100},
	"C06": {Engine: "C", Pkg: "./engc", MinEvals: 300, Overlay: true, RacePart: true, RaceN: 8,
		Extra: []extraPart{{Pkg: "./engc", N: 4, Env: []string{"VERIF_PART=trim"}, Flags: []string{"-trimpath"}, Overlay: true}}},
	"C12": {Engine: "A", Pkg: "./enga", MinEvals: 80000, RacePart: true, RaceN: 4, Extra: []extraPart{{Pkg: "./engb", N: 2, Env: []string{"VERIF_PART=defaults"}}}},
	"C14": {Engine: "A", Pkg: "./enga", MinEvals: 1000, RacePart: true, RaceN: 4},
	"C15": {Engine: "A", Pkg: "./enga", MinEvals: 1000},
	"C16": {Engine: "A", Pkg: "./enga", MinEvals: 1000},
	"C17": {Engine: "A", Pkg: "./enga", MinEvals: 1000},
	"C18": {Engine: "A", Pkg: "./enga", MinEvals: 1000},
	"C19": {Engine: "A", Pkg: "./enga", MinEvals: 500},
	"C13": {Engine: "A", Pkg: "./enga", MinEvals: 132496, Exhaust: false, RacePart: true, RaceN: 4},
}

var home = "/verif"

func die(code int, f string, a ...any) {
	fmt.Printf(f+"\n", a...)
	os.Exit(code)
}

func goEnv() []string {
	env := os.Environ()
	env = append(env, "GOFLAGS=-mod=mod", "GOPROXY=off", "GOSUMDB=off", "GOTOOLCHAIN=local", "CGO_ENABLED=1")
	return env
}

func build(def checkDef, race bool, flags ...string) (string, error) {
	name := strings.TrimPrefix(def.Pkg, "./")
	out := filepath.Join(home, ".build", name+".test")
	args := []string{"test", "-c", "-tags", "verif", "-vet=off", "-o", out}
	if race {
		out = filepath.Join(home, ".build", name+".race.test")
		args = []string{"test", "-c", "-race", "-tags", "verif", "-vet=off", "-o", out}
	}
	if len(flags) > 0 {
		out = filepath.Join(home, ".build", name+"."+strings.Trim(strings.Join(flags, ""), "-")+".test")
		args = append([]string{"test", "-c", "-tags", "verif", "-vet=off"}, flags...)
		args = append(args, "-o", out)
	}
	os.MkdirAll(filepath.Join(home, ".build"), 0o755)
	if alt := os.Getenv("VERIF_REPO"); alt != "" && alt != "/repo" {
		// self-test mode: point the same checks at a scratch copy of the repository
		mod, err := os.ReadFile(filepath.Join(home, "harness", "go.mod"))
		if err != nil {
			return "", err
		}
		tag := fmt.Sprintf("%x", vkit.Hash(alt))
		altMod := filepath.Join(home, ".build", "alt-"+tag+".mod")
		os.WriteFile(altMod, bytes.ReplaceAll(mod, []byte("=> /repo"), []byte("=> "+alt)), 0o644)
		sum, _ := os.ReadFile(filepath.Join(home, "harness", "go.sum"))
		os.WriteFile(filepath.Join(home, ".build", "alt-"+tag+".sum"), sum, 0o644)
		out = strings.TrimSuffix(out, ".test") + "." + tag + ".test"
		for k := range args {
			if args[k] == "-o" {
				args[k+1] = out
			}
		}
		args = append(args, "-modfile="+altMod)
	}
	if def.Overlay {
		repo := "/repo"
		if alt := os.Getenv("VERIF_REPO"); alt != "" {
			repo = alt
		}
		ov, err := instrument(repo)
		if err != nil {
			return "", err
		}
		args = append(args, "-overlay="+ov)
	}
	args = append(args, def.Pkg)
	cmd := exec.Command("go", args...)
	cmd.Dir = filepath.Join(home, "harness")
	cmd.Env = goEnv()
	var buf bytes.Buffer
	cmd.Stdout, cmd.Stderr = &buf, &buf
	if err := cmd.Run(); err != nil {
		return "", fmt.Errorf("build failed: %v\n%s", err, buf.String())
	}
	return out, nil
}

// instrument runs the AST rewriter over the current sources of package snaps and
// returns the overlay file. The check is inconclusive when the instrumentation
// did not bite (no read site, no write site or no lock site).
func instrument(repo string) (string, error) {
	bin := filepath.Join(home, ".build", "instrument")
	cmd := exec.Command("go", "build", "-o", bin, "./cmd/instrument")
	cmd.Dir = filepath.Join(home, "harness")
	cmd.Env = goEnv()
	if out, err := cmd.CombinedOutput(); err != nil {
		return "", fmt.Errorf("building the instrumenter failed: %v\n%s", err, out)
	}
	outdir := filepath.Join(home, ".build", fmt.Sprintf("instr-%x", vkit.Hash(repo)))
	os.RemoveAll(outdir)
	out, err := exec.Command(bin, repo, outdir).Output()
	if err != nil {
		return "", fmt.Errorf("instrumenter failed: %v", err)
	}
	var sites []struct{ Site, Kind string }
	json.Unmarshal(out, &sites)
	var rd, wr, lk bool
	for _, s := range sites {
		switch {
		case s.Kind == "lock" || s.Kind == "rlock":
			lk = true
		case strings.Contains(s.Site, "os.ReadFile") || strings.Contains(s.Site, "Scan-loop"):
			rd = true
		case strings.Contains(s.Site, "Fprintf") || strings.Contains(s.Site, ".Write") || strings.Contains(s.Site, "Truncate"):
			wr = true
		}
	}
	if !rd || !wr || !lk {
		return "", fmt.Errorf("instrumentation did not bite: read site=%v write site=%v lock site=%v (%d sites)", rd, wr, lk, len(sites))
	}
	return filepath.Join(outdir, "overlay.json"), nil
}

type workerResult struct {
	p      *vkit.Partial
	err    string
	stderr string
	crash  *vkit.Witness // the worker was killed by a fatal error raised below library code
}

// libraryCrash recognises a worker that the Go runtime killed (fatal error, stack
// overflow, unrecovered panic on another goroutine) while library code was on the
// stack: that is an observation about the code under test, not about the harness.
func libraryCrash(out string) (string, bool) {
	head := -1
	for _, m := range []string{"fatal error:", "runtime: goroutine stack exceeds", "panic: "} {
		if i := strings.Index(out, m); i >= 0 && (head < 0 || i < head) {
			head = i
		}
	}
	if head < 0 {
		return "", false
	}
	// only the goroutine that died: the dump of a fatal error lists all of them
	seg := out[head:]
	if i := strings.Index(seg, "\ngoroutine "); i >= 0 {
		if j := strings.Index(seg[i+1:], "\n\ngoroutine "); j >= 0 {
			seg = seg[:i+1+j]
		}
	}
	var frames []string
	for _, l := range strings.Split(seg, "\n") {
		if strings.HasPrefix(l, "github.com/gkampitakis/go-snaps/") && !strings.Contains(l, "Verif") {
			frames = append(frames, strings.TrimSpace(l))
			if len(frames) == 6 {
				break
			}
		}
	}
	if len(frames) == 0 {
		return "", false
	}
	return vkit.Clip(out[head:], 600) + " ... library frames: " + strings.Join(frames, " <- "), true
}

func runWorkers(bin, prop, tier string, seed int64, shards, onlyCase int, extraEnv []string) []workerResult {
	tmp := vkit.MkScratch("vcheck-" + prop)
	defer os.RemoveAll(tmp)
	res := make([]workerResult, shards)
	var wg sync.WaitGroup
	for i := 0; i < shards; i++ {
		wg.Add(1)
		go func(i int) {
			defer wg.Done()
			out := filepath.Join(tmp, fmt.Sprintf("part-%d.json", i))
			cur := filepath.Join(tmp, fmt.Sprintf("cur-%d", i))
			// the working directory is deeper than any source directory of the harness, so a
			// path computed relative to a caller's file never resolves to the same file from here
			wd := filepath.Join(tmp, fmt.Sprintf("wd-%d", i), "a/b/c/d/e/f/g/h/i/j/k/l")
			os.MkdirAll(wd, 0o755)
			timeout := "3600"
			if tier == "thorough" {
				timeout = "14400"
			}
			if t := os.Getenv("VERIF_WORKER_TIMEOUT"); t != "" {
				timeout = t
			}
			cmd := exec.Command("timeout", "-s", "QUIT", timeout, bin)
			cmd.Dir = wd
			env := append(os.Environ(),
				"VERIF_PROP="+prop, "VERIF_TIER="+tier, "VERIF_SEED="+strconv.FormatInt(seed, 10),
				"VERIF_SHARD="+strconv.Itoa(i), "VERIF_SHARDS="+strconv.Itoa(shards),
				"VERIF_OUT="+out, "VERIF_CURCASE="+cur, "VERIF_HOME="+home,
				"VERIF_SCRATCH="+tmp,
				"GORACE=halt_on_error=0 log_path="+filepath.Join(tmp, fmt.Sprintf("race-%d", i)),
			)
			if onlyCase >= 0 {
				env = append(env, "VERIF_ONLY_CASE="+strconv.Itoa(onlyCase))
			}
			// ambient variables an interactive shell, a terminal multiplexer or a CI image exports;
			// none of them has a say in any property. A function of the shard index, so a replay
			// (which runs the case in the same shard) sees the same environment.
			env = append(env, [][]string{
				nil,
				{"COLUMNS=80", "LINES=24", "TERM=xterm-256color", "COLORTERM=truecolor", "TERM_PROGRAM=vscode", "TERM_PROGRAM_VERSION=1.90", "VTE_VERSION=7600", "WT_SESSION=1", "KONSOLE_VERSION=230800", "CLICOLOR_FORCE=1", "FORCE_COLOR=3"},
				{"COLUMNS=120", "TERM=dumb", "LANG=tr_TR.UTF-8", "LC_ALL=tr_TR.UTF-8"},
				{"COLUMNS=40", "LINES=10", "TZ=Pacific/Kiritimati", "GOMAXPROCS=3", "GODEBUG=gctrace=0"},
			}[i%4]...)
			env = append(env, extraEnv...)
			cmd.Env = env
			var eb bytes.Buffer
			cmd.Stdout, cmd.Stderr = &eb, &eb
			err := cmd.Run()
			r := workerResult{stderr: vkit.Clip(eb.String(), 6000)}
			full := eb.String()
			b, rerr := os.ReadFile(out)
			if rerr == nil {
				var p vkit.Partial
				if json.Unmarshal(b, &p) == nil && p.Done {
					r.p = &p
				}
			}
			if r.p == nil {
				c, _ := os.ReadFile(cur)
				r.err = fmt.Sprintf("worker %d died without a result (%v); last case index %s", i, err, string(c))
				if detail, ok := libraryCrash(full); ok {
					idx, cerr := strconv.Atoi(strings.TrimSpace(string(c)))
					if cerr == nil {
						r.crash = &vkit.Witness{Property: prop, Kind: "process-killed-by-fatal-error-in-library-code", Detail: detail, Tier: tier, Seed: seed, Case: idx}
					}
				}
			}
			// race reports
			if m, _ := filepath.Glob(filepath.Join(tmp, fmt.Sprintf("race-%d.*", i))); len(m) > 0 && r.p != nil {
				for _, f := range m {
					b, _ := os.ReadFile(f)
					n := strings.Count(string(b), "WARNING: DATA RACE")
					r.p.Counters["race_reports"] += int64(n)
					if r.p.Extra == nil {
						r.p.Extra = map[string]any{}
					}
					if n > 0 {
						r.p.Extra["race_log"] = vkit.Clip(string(b), 8000)
					}
				}
			}
			res[i] = r
		}(i)
	}
	wg.Wait()
	return res
}

type evidence struct {
	PropertyID  string         `json:"property_id"`
	Tier        string         `json:"tier"`
	Seed        int64          `json:"seed"`
	Level       string         `json:"level"`
	Coverage    map[string]any `json:"coverage"`
	Assumptions []string       `json:"assumptions,omitempty"`
	WallS       float64        `json:"wall_s"`
	Violations  int            `json:"violations"`
}

func main() {
	if h := os.Getenv("VERIF_HOME"); h != "" {
		home = h
	}
	args := os.Args[1:]
	if len(args) >= 2 && args[0] == "--replay" {
		replay(args[1])
		return
	}
	if len(args) < 1 {
		die(2, "usage: vcheck <ID> [quick|thorough] | --replay <file>")
	}
	prop := args[0]
	tier := os.Getenv("VERIF_TIER")
	if len(args) >= 2 {
		tier = args[1]
	}
	if tier == "" {
		tier = "quick"
	}
	seed := int64(1)
	if s := os.Getenv("VERIF_SEED"); s != "" {
		if n, err := strconv.ParseInt(s, 10, 64); err == nil {
			seed = n
		}
	}
	os.Exit(run(prop, tier, seed, -1, true))
}

func run(prop, tier string, seed int64, onlyCase int, writeEvidence bool) int {
	def, ok := defs[prop]
	if !ok {
		die(2, "INCONCLUSIVE property=%s no such check", prop)
	}
	start := time.Now()
	race := def.Race || (def.RaceThor && tier == "thorough")
	bin, err := build(def, race)
	if err != nil {
		fmt.Println(err)
		die(2, "INCONCLUSIVE property=%s build of the harness against /repo failed", prop)
	}
	buildS := time.Since(start).Seconds()
	shards := def.Shards
	if shards == 0 {
		shards = runtime.NumCPU()
	}
	if onlyCase >= 0 {
		shards = 1
	}
	results := runWorkers(bin, prop, tier, seed, shards, onlyCase, nil)
	if def.RacePart && (onlyCase < 0 || os.Getenv("VERIF_REPLAY_RACE") == "1") && !race {
		rbin, err := build(def, true)
		if err != nil {
			fmt.Println(err)
			die(2, "INCONCLUSIVE property=%s -race build of the harness against /repo failed", prop)
		}
		n := def.RaceN
		if n == 0 {
			n = 4
		}
		if onlyCase >= 0 {
			n = 1
		}
		results = append(results, runWorkers(rbin, prop, tier, seed, n, onlyCase, []string{"VERIF_RACE_BUILD=1"})...)
	}
	if onlyCase < 0 {
		for _, x := range def.Extra {
			xd := def
			xd.Pkg, xd.Overlay = x.Pkg, x.Overlay
			xbin, err := build(xd, false, x.Flags...)
			if err != nil {
				fmt.Println(err)
				die(2, "INCONCLUSIVE property=%s build of %s failed", prop, x.Pkg)
			}
			results = append(results, runWorkers(xbin, prop, tier, seed, x.N, -1, x.Env)...)
		}
	}
	return merge(prop, tier, seed, def, results, start, buildS, onlyCase, writeEvidence)
}

func merge(prop, tier string, seed int64, def checkDef, results []workerResult, start time.Time, buildS float64, onlyCase int, writeEvidence bool) int {
	level := def.Level
	if level == "" {
		level = "exploration"
	}
	distinct := map[uint64]struct{}{}
	counters := map[string]int64{}
	var samples []any
	var viol []vkit.Witness
	nviol := 0
	violKinds := map[string]int{}
	known := map[string]int{}
	knownSample := map[string]vkit.Witness{}
	var inconclusive []string
	evals := 0
	rule := ""
	var assumptions []string
	extra := map[string]any{}
	exhaustive := map[string]bool{}
	for _, r := range results {
		if r.p == nil {
			if r.crash != nil {
				// the cases this worker had judged before are lost; the crash itself is a witness
				viol = append(viol, *r.crash)
				nviol++
				violKinds[r.crash.Kind+"/"]++
				continue
			}
			inconclusive = append(inconclusive, r.err+"\n"+r.stderr)
			continue
		}
		p := r.p
		evals += p.Evaluations
		for _, h := range p.Nontrivial {
			distinct[h] = struct{}{}
		}
		for k, v := range p.Counters {
			counters[k] += v
		}
		if len(samples) < 5 && len(p.Samples) > 0 {
			samples = append(samples, p.Samples[0])
		}
		viol = append(viol, p.Violations...)
		nviol += p.NViolations
		for k, v := range p.ViolKinds {
			violKinds[k] += v
		}
		for k, v := range p.Known {
			known[k] += v
			if _, ok := knownSample[k]; !ok {
				knownSample[k] = p.KnownSample[k]
			}
		}
		inconclusive = append(inconclusive, p.Inconclusive...)
		if p.Rule != "" {
			rule = p.Rule
		}
		if len(p.Assumptions) > 0 {
			assumptions = p.Assumptions
		}
		for k, v := range p.Extra {
			extra[k] = v
		}
		for k, v := range p.Exhaustive {
			if cur, ok := exhaustive[k]; ok {
				exhaustive[k] = cur && v
			} else {
				exhaustive[k] = v
			}
		}
	}
	if def.RacePart || def.Race {
		counters["race_reports"] += 0 // shown even when the detector stayed silent
		counters["race_detector_workers"] = int64(def.RaceN)
	}
	if rc := counters["race_reports"]; rc > 0 {
		nviol += int(rc)
		viol = append(viol, vkit.Witness{Property: prop, Kind: "data-race", Detail: fmt.Sprint(extra["race_log"]), Tier: tier, Seed: seed, Case: -1})
	}
	if onlyCase < 0 && evals < def.MinEvals && nviol == 0 {
		inconclusive = append(inconclusive, fmt.Sprintf("only %d cases observed, floor is %d", evals, def.MinEvals))
	}

	// verdict lines
	findings := vkit.LoadFindings(home)
	keys := make([]string, 0, len(known))
	for k := range known {
		keys = append(keys, k)
	}
	sort.Strings(keys)
	for _, k := range keys {
		what := k
		for _, f := range findings {
			if f.Property == prop && f.Class == k {
				what = f.What
			}
		}
		fmt.Printf("KNOWN-FINDING: property=%s class=%s witnesses=%d %s\n", prop, k, known[k], what)
	}
	os.MkdirAll(filepath.Join(home, "replays"), 0o755)
	for i, w := range viol {
		path := filepath.Join(home, "replays", fmt.Sprintf("%s-%d-%d.json", prop, seed, i))
		b, _ := json.MarshalIndent(w, "", " ")
		os.WriteFile(path, b, 0o644)
		fmt.Printf("VIOLATION property=%s replay=%s\n", prop, path)
		fmt.Printf("  kind=%s class=%q case=%d %s\n", w.Kind, w.Class, w.Case, strconv.QuoteToASCII(vkit.Clip(w.Detail, 600)))
	}
	if len(violKinds) > 0 {
		fmt.Printf("violations by kind/class: %v\n", violKinds)
	}
	for _, m := range inconclusive {
		fmt.Printf("INCONCLUSIVE property=%s %s\n", prop, vkit.Clip(m, 3000))
	}

	if writeEvidence {
		cov := map[string]any{
			"evaluations":         evals,
			"distinct_nontrivial": len(distinct),
			"rule":                rule,
			"samples":             samples,
			"monitor_counters":    counters,
			"known_findings_seen": known,
			"workers":             len(results),
			"build_s":             buildS,
		}
		if len(exhaustive) > 0 {
			all := true
			for _, v := range exhaustive {
				all = all && v
			}
			cov["exhaustive_parts"] = exhaustive
			if def.Exhaust {
				cov["exhaustive"] = all
			}
		}
		for k, v := range extra {
			if k != "race_log" {
				cov[k] = v
			}
		}
		if len(inconclusive) > 0 {
			cov["inconclusive"] = inconclusive
		}
		if len(samples) == 0 {
			cov["samples"] = []any{"(no case completed)"}
		}
		ev := evidence{PropertyID: prop, Tier: tier, Seed: seed, Level: level, Coverage: cov, Assumptions: assumptions,
			WallS: time.Since(start).Seconds(), Violations: nviol}
		b, _ := json.MarshalIndent(ev, "", " ")
		os.MkdirAll(filepath.Join(home, "evidence"), 0o755)
		os.WriteFile(filepath.Join(home, "evidence", prop+".json"), b, 0o644)
	}
	fmt.Printf("%s %s seed=%d: %d cases, %d distinct non-trivial, %d violations, %d known-finding witnesses, %.1fs\n",
		prop, tier, seed, evals, len(distinct), nviol, sumInts(known), time.Since(start).Seconds())
	switch {
	case nviol > 0:
		return 1
	case len(inconclusive) > 0:
		return 2
	}
	return 0
}

func sumInts(m map[string]int) int {
	n := 0
	for _, v := range m {
		n += v
	}
	return n
}

func replay(path string) {
	b, err := os.ReadFile(path)
	if err != nil {
		die(2, "INCONCLUSIVE cannot read %s: %v", path, err)
	}
	var w vkit.Witness
	if err := json.Unmarshal(b, &w); err != nil {
		die(2, "INCONCLUSIVE bad replay file: %v", err)
	}
	if w.Case < 0 {
		die(2, "INCONCLUSIVE witness %s has no single case to replay (kind=%s); rerun the check with VERIF_SEED=%d", path, w.Kind, w.Seed)
	}
	fmt.Printf("replaying %s case %d (seed %d, tier %s) against the current tree\n", w.Property, w.Case, w.Seed, w.Tier)
	os.Exit(run(w.Property, w.Tier, w.Seed, w.Case, false))
}
