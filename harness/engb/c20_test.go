package engb

import (
	"fmt"
	"math/rand/v2"
	"os"
	"path/filepath"
	"strings"

	"verifharness/vkit"
)

func init() { register("C20", checkC20) }

func checkC20(c *vkit.Ctx) {
	c.P.Rule = "case = generated program recorded once, stale items planted, then a judged process in which a random subset of calls changes value with Update(true|false|unset), some slots are new, some tests call snaps.Skip*, in clean mode one process in eight runs with every unlink failing (strace fault injection), subtests run with t.Parallel and some tests issue their calls from free goroutines, -count in {1,2,3}, CI on/off, every UPDATE_SNAPS value, Sort on/off; oracle (offline over the event log): every call's recorded signals are exactly one of {nothing, one added log, one updated log, one Error}; printed totals passed/failed/added/updated == tallies of classified outcomes, skipped == number of snaps.Skip* calls, and the two obsolete lists == the stale-item oracle of C09; thorough runs the same programs built with -race and counts race reports; non-trivial = >=2 distinct outcome kinds in one process; distinct by hash(scenario, mutations, flags)"
	var extra []string
	tag := ""
	if c.Thorough() {
		extra = []string{"-race"}
		tag = "race"
	}
	p, done := workerProgram(c, tag, extra...)
	defer done()
	if p == nil {
		return
	}
	lab := NewLab(p, "")
	n := c.N(2000, 12000) // thorough children are -race builds (about 0.13 s per case on 16 cores)
	for i := 0; i < n; i++ {
		if !c.Mine(i) {
			continue
		}
		r := c.Rand("case", i)
		c.Guard(i, func() { runC20(c, lab, r, i) })
	}
	lab.Wipe()
}

func runC20(c *vkit.Ctx, lab *Lab, r *rand.Rand, i int) {
	lab.Wipe()
	lc := lab.Gen(r, LabOpts{Skips: true, Counts: true, Parallel: true, Fuzz: true, Bench: true})
	lc.Run = ""
	if lc.Count > 3 {
		lc.Count = 3
	}
	lc.CI = r.IntN(4) == 0
	rec, ok := lab.record(c, lc)
	if !ok {
		c.Count("premise_record_failed", 1)
		return
	}
	own := BuildOwned(rec)
	lab.Seed(r, own, LabOpts{Stale: true})
	// provoke all outcomes
	lc.MutVal, lc.MutUpd = map[string]map[int]string{}, map[string]map[int]*bool{}
	tr, fa := true, false
	for name, n := range lc.Scenario.Nodes {
		for idx, cl := range n.Calls {
			if r.IntN(3) != 0 {
				continue
			}
			if lc.MutVal[name] == nil {
				lc.MutVal[name], lc.MutUpd[name] = map[int]string{}, map[int]*bool{}
			}
			lc.MutVal[name][idx] = lab.value(r, cl.API, name+"-changed", idx, false)
			lc.MutUpd[name][idx] = []*bool{nil, &tr, &fa}[r.IntN(3)]
		}
		if r.IntN(4) == 0 {
			// calls the recording run did not make: new slots
			for k := 0; k < 1+r.IntN(2); k++ {
				api := []string{"snap", "json", "yaml", "ssnap", "sjson"}[r.IntN(5)]
				cl := Call{API: api, Val: lab.value(r, api, name+"-new", 100+k, false)}
				if (api == "json" || api == "sjson" || api == "yaml") && r.IntN(4) == 0 {
					// a Go value that cannot be encoded: the call fails before anything is compared
					// and is tallied as failed like any other failure
					cl.Form = []string{"marshal-error", "marshal-error", "unsupported-value"}[r.IntN(3)]
					if api == "yaml" {
						cl.Form = "marshal-error"
					}
					lc.Classes["go-value-that-cannot-be-encoded"] = true
				}
				if api == "snap" && r.IntN(3) == 0 {
					// values of the library's own types handed to MatchSnapshot: values like any other
					cl.Form = "library-values"
					lc.Classes["library-matchers-and-configs-as-snapshot-values"] = true
				}
				if r.IntN(5) == 0 {
					// a directory that cannot be created (its parent is a regular file): the write fails,
					// the call must still end in exactly one outcome (one Error) and be tallied as failed
					cl.Dir = filepath.Join(lab.AbsDir, "blocker.txt", "sub")
					lc.Classes["io-error-on-create"] = true
				}
				n.Calls = append(n.Calls, cl)
			}
			lc.Classes["new-slots-in-judged-run"] = true
		}
		if r.IntN(5) == 0 && len(n.Calls) > 0 {
			n.Goroutines = true
			lc.Classes["calls-from-goroutines"] = true
		}
	}
	// goroutine-issued calls have no defined per-test order: use distinct files per call there is not needed,
	// ordinals only have to be consumed exactly once each - outcomes are tallied, not predicted.
	os.MkdirAll(lab.AbsDir, 0o755)
	os.WriteFile(filepath.Join(lab.AbsDir, "blocker.txt"), []byte("a regular file where a directory is wanted"), 0o644)
	opt := RunOpt{PkgDir: lab.PkgDir, Scenario: lc.withSkips(), Run: lc.Run, Count: lc.Count, Extra: lc.RunnerFlags(), Update: lc.Update, CI: lc.CI}
	if r.IntN(8) == 0 && !lc.CI && (lc.Update == "clean" || lc.Update == "true") {
		// every unlink of the child fails (as on an immutable or read-only directory): what Clean
		// judges obsolete is still what the summary has to show
		opt.Inject = "unlink,unlinkat:error=EPERM"
		lc.Classes["removal-of-obsolete-files-fails"] = true
	}
	res := lab.P.RunChild(opt)
	in := labSample(lc)
	in["ci"] = lc.CI
	in["fault_injection"] = opt.Inject
	if !res.Complete {
		c.Violate("clean-did-not-complete", "", fmt.Sprintf("child died: %v %s", res.Err, res.Stderr), in)
		return
	}
	if strings.Contains(res.Stderr, "WARNING: DATA RACE") {
		c.Violate("data-race", "", vkit.Clip(res.Stderr, 3000), in)
		return
	}
	a := Analyze(res, lab.Src)
	tally := map[string]int{}
	for _, cr := range a.Calls {
		tally[cr.Outcome]++
		if cr.Outcome == vkit.Anomaly {
			c.Violate("call-without-exactly-one-outcome", "", fmt.Sprintf("%s call %d (%s): errors=%d logs=%d returned=%v logs=%v", cr.Test, cr.Idx, cr.Call.API, len(cr.Signals.Errors), len(cr.Signals.Logs), cr.Returned, cr.Signals.Logs), in)
			return
		}
	}
	c.Count("calls_classified", len(a.Calls))
	for k, v := range tally {
		c.Count("outcome_"+k, v)
	}
	sum := res.Summary
	if sum == nil {
		sum = &Summary{}
	}
	if len(sum.Unparsed) > 0 {
		c.Count("summary_unparsed_lines", len(sum.Unparsed))
	}
	got := fmt.Sprintf("passed=%d failed=%d added=%d updated=%d skipped=%d", sum.Passed, sum.Failed, sum.Added, sum.Updated, sum.Skipped)
	want := fmt.Sprintf("passed=%d failed=%d added=%d updated=%d skipped=%d", tally[vkit.Passed], tally[vkit.Failed], tally[vkit.Added], tally[vkit.Updated], a.SkipEv)
	if got != want {
		c.Violate("summary-totals", "", fmt.Sprintf("summary prints %s, the event log has %s (count=%d CI=%v UPDATE_SNAPS=%q)", got, want, lc.Count, lc.CI, lc.Update), in)
		return
	}
	c.Count("summaries_checked", 1)
	prot := ComputeProtection(rec, a, lc)
	if mustT, mayT, mustF, mayF, ok := StaleOracle(lab, res, a, own, prot, lc); ok {
		if msg := listMismatch(sum.Tests, mustT, mayT); msg != "" {
			c.Violate("summary-obsolete-tests", "", msg, in)
			return
		}
		if msg := listMismatch(sum.Files, mustF, mayF); msg != "" {
			c.Violate("summary-obsolete-files", "", msg, in)
			return
		}
		c.Count("obsolete_lists_checked", 1)
	}
	for k := range lc.Classes {
		c.Count("class:"+k, 1)
	}
	kinds := 0
	for _, k := range []string{vkit.Passed, vkit.Failed, vkit.Added, vkit.Updated} {
		if tally[k] > 0 {
			kinds++
		}
	}
	c.Case(vkit.Hash(fmt.Sprint(in), fmt.Sprint(lc.MutVal)), kinds >= 2)
	if i%43 == 0 {
		in["tally"] = tally
		c.Sample(in)
	}
}
