package engb

import (
	"fmt"
	"math/rand/v2"
	"os"
	"path/filepath"
	"strings"

	"verifharness/vkit"
)

func init() { register("C07", checkC07) }

func labSample(lc *LabCase) map[string]any {
	nodes := map[string]int{}
	for k, n := range lc.Scenario.Nodes {
		nodes[k] = len(n.Calls)
	}
	return map[string]any{"nodes_calls": nodes, "run": lc.Run, "count": lc.Count, "update_snaps": lc.Update, "sort": lc.Sort, "skips": lc.SkipNodes, "classes": lc.Classes.List()}
}

// record executes the recording run (no skips, no filter) and returns its analysis.
func (l *Lab) record(c *vkit.Ctx, lc *LabCase) (*Analysis, bool) {
	return l.recordWith(c, lc, l.P)
}

func (l *Lab) recordWith(c *vkit.Ctx, lc *LabCase, prog *Program) (*Analysis, bool) {
	scn := *lc.Scenario
	scn.CleanSort = false
	ro := RunOpt{PkgDir: l.PkgDir, Scenario: &scn}
	if lc.Bench {
		ro.Extra, ro.Run = BenchFlags, "^$"
	}
	res := prog.RunChild(ro)
	if !res.Complete {
		c.Inconclusive("recording run did not complete: " + fmt.Sprint(res.Err) + " " + res.Stderr)
		return nil, false
	}
	a := Analyze(res, l.Src)
	for _, cr := range a.Calls {
		if cr.Outcome != vkit.Added && cr.Outcome != vkit.Passed {
			c.Count("premise_record_outcome_"+cr.Outcome, 1)
			return a, false
		}
	}
	return a, true
}

func inList(xs []string, x string) bool {
	for _, y := range xs {
		if y == x {
			return true
		}
	}
	return false
}

// fuzzClass: known-findings predicate for ids that do not start with `Test`.
func nonTestIDClass(id string) string {
	if !strings.HasPrefix(id, "Test") {
		return "entry-id-not-starting-with-Test"
	}
	return ""
}

func checkC07(c *vkit.Ctx) {
	c.P.Rule = "(every 10th case: three tests address ONE snapshot directory under two spellings - a symbolic link and the real path in an ordinary build, a relative and an absolute Dir in a -trimpath build - with multi-entry and standalone calls; recorded, then judged under a random Clean mode: every call passes, so nothing may be listed or removed and every entry and file must still be there) case = generated program run by the real go test runner: 2-8 top-level tests with nested subtests (and fuzz seed-corpus entries), 0-12 calls per test over default/custom/shared files, custom extensions, relative and absolute directories, standalone and standalone-JSON; recorded once, then stale entries/files planted around the live ones and entry order optionally permuted, then the judged process with -count in {1,2,3,5}, optional -run pattern, UPDATE_SNAPS in {unset,clean,true,other}, Sort on/off; oracle over the event log and the pre/post-Clean copies: every slot and standalone file addressed in the judged process is present after Clean with the same raw body, is not named in either obsolete list, and a following CI (read-only) process passes on it; non-trivial = >=2 calls in some test and (count>1 or >=2 files or standalone present); distinct by hash(scenario, flags)"
	c.P.Assumptions = []string{"the program makes the same calls on every execution (what cumulative/count can know)", "the real runner decides what ran (enter events)"}
	p, done := workerProgram(c, "")
	defer done()
	if p == nil {
		return
	}
	lab := NewLab(p, "")
	lab.withTrim(c)
	n := c.N(1500, 100000)
	for i := 0; i < n; i++ {
		if !c.Mine(i) {
			continue
		}
		r := c.Rand("case", i)
		c.Guard(i, func() { runC07(c, lab, r, i) })
	}
	lab.Wipe()
}

// c07Spellings: one snapshot directory addressed under two spellings in one process - through
// a symbolic link in an ordinary build, as a relative and as an absolute path in a -trimpath
// build (where a relative Dir stays relative to the working directory). Every test runs and
// every call passes in the judged process, so Clean has nothing to list, nothing to remove,
// and whatever it rewrites keeps every entry.
func c07Spellings(c *vkit.Ctx, lab *Lab, r *rand.Rand, i int) {
	lab.Wipe()
	prog, trimmed := lab.prog(i)
	var sp [2]string
	dirReal := lab.AbsDir
	if trimmed {
		dirReal = filepath.Join(lab.Src, "snaps_rel")
		sp = [2]string{"snaps_rel", dirReal}
	} else {
		link := lab.AbsDir + "-link"
		os.MkdirAll(lab.AbsDir, 0o755)
		os.Remove(link)
		if err := os.Symlink(lab.AbsDir, link); err != nil {
			c.Count("spelling_cases_skipped_no_symlink", 1)
			return
		}
		defer os.Remove(link)
		sp = [2]string{lab.AbsDir, link}
	}
	scn := &Scenario{Nodes: map[string]*Node{}, Roots: lab.Roots, CleanOpts: true}
	tests := []string{"TestA", "TestB", "TestC"}
	type addressed struct{ file, id string }
	var multi []addressed
	var files []string
	for ti, t := range tests {
		n := &Node{}
		nc := 1 + r.IntN(3)
		ord := map[int]int{}
		for k := 0; k < nc; k++ {
			via := ti % 2 // TestA: first spelling, TestB: second, TestC: both
			if ti == 2 {
				via = k % 2
			}
			api := []string{"snap", "snap", "json", "yaml", "ssnap", "sjson"}[r.IntN(6)]
			cl := Call{API: api, Dir: sp[via], File: "shared"}
			switch api {
			case "json", "sjson":
				cl.Val = fmt.Sprintf(`{"who":%q}`, t)
			case "yaml":
				cl.Val = fmt.Sprintf("who: %s\n", t)
			default:
				cl.Val = "value of " + t
			}
			if cl.Standalone() {
				cl.File = fmt.Sprintf("sa_%s_%d_via%d", t, k, via)
				ext := ".snap"
				if api == "sjson" {
					ext = ".snap.json"
				}
				files = append(files, filepath.Join(dirReal, cl.File+"_1"+ext))
			} else {
				// ordinals are kept per spelling: a test that uses both addresses slot 1, 2 ... under
				// each (with the same value, so the later call finds what the earlier one stored)
				ord[via]++
				multi = append(multi, addressed{filepath.Join(dirReal, "shared.snap"), vkit.SlotID(t, ord[via])})
			}
			n.Calls = append(n.Calls, cl)
		}
		scn.Nodes[t] = n
	}
	in := map[string]any{"part": "one directory under two spellings", "spellings": sp, "trimpath_build": trimmed, "nodes": scn.Nodes}
	rec := prog.RunChild(RunOpt{PkgDir: lab.PkgDir, Scenario: scn})
	if !rec.Complete {
		c.Inconclusive("recording run (two spellings) did not complete: " + fmt.Sprint(rec.Err) + " " + rec.Stderr)
		return
	}
	upd := []string{"", "", "clean", "true"}[r.IntN(4)]
	scn.CleanSort = r.IntN(2) == 0
	res := prog.RunChild(RunOpt{PkgDir: lab.PkgDir, Scenario: scn, Update: upd})
	if !res.Complete {
		c.Violate("clean-did-not-complete", "", fmt.Sprintf("child died: %v %s", res.Err, res.Stderr), in)
		return
	}
	for _, e := range res.Events {
		if e.Ev == "sig" && (e.Kind == "Error" || (e.Kind == "Log" && upd != "true")) {
			c.Count("spelling_cases_premise_failed", 1) // every call of the judged run is meant to pass
			return
		}
	}
	sum := res.Summary
	if sum == nil {
		sum = &Summary{}
	}
	if len(sum.Tests) > 0 || len(sum.Files) > 0 {
		c.Violate("addressed-entry-listed-obsolete", "", fmt.Sprintf("UPDATE_SNAPS=%q sort=%v: every test ran and every call passed, Clean lists %v %v", upd, scn.CleanSort, sum.Tests, sum.Files), in)
		return
	}
	ents, torn := vkit.ReadSnapFile(filepath.Join(dirReal, "shared.snap"))
	if len(torn) > 0 && len(multi) > 0 {
		c.Violate("file-torn-after-clean", "", strings.Join(torn, "; "), in)
		return
	}
	for _, m := range multi {
		if len(vkit.FindEntries(ents, m.id)) != 1 {
			c.Violate("clean-discarded-addressed-entry", "", fmt.Sprintf("UPDATE_SNAPS=%q sort=%v: [%s] was matched in this process and is gone from shared.snap (%v)", upd, scn.CleanSort, m.id, entryIDs(ents)), in)
			return
		}
	}
	for _, f := range files {
		if _, err := os.Stat(f); err != nil {
			c.Violate("clean-discarded-addressed-entry", "", fmt.Sprintf("UPDATE_SNAPS=%q: standalone file %s was matched in this process and is gone", upd, filepath.Base(f)), in)
			return
		}
	}
	c.Count("directories_addressed_under_two_spellings", 1)
	c.Count("entry_checks", len(multi)+len(files))
	c.Case(vkit.Hash("spellings", fmt.Sprint(in), upd, scn.CleanSort), true)
	if i%97 == 0 {
		c.Sample(in)
	}
}

func runC07(c *vkit.Ctx, lab *Lab, r *rand.Rand, i int) {
	if i%10 == 7 {
		c07Spellings(c, lab, r, i)
		return
	}
	lab.Wipe()
	lc := lab.Gen(r, LabOpts{RunFilter: true, Counts: true, Stale: true, Shuffle: true, Hostile: true, Fuzz: true, Parallel: true, Bench: true})
	prog, trimmed := lab.prog(i)
	if trimmed {
		lc.Classes["trimpath-build"] = true
	}
	rec, ok := lab.recordWith(c, lc, prog)
	if !ok {
		c.Count("premise_record_failed", 1)
		return
	}
	own := BuildOwned(rec)
	sd := lab.Seed(r, own, LabOpts{Stale: true, Shuffle: true, Hostile: true, TornTail: true})
	res := prog.RunChild(RunOpt{PkgDir: lab.PkgDir, Scenario: lc.Scenario, Run: lc.Run, Count: lc.Count, Extra: lc.RunnerFlags(), Update: lc.Update})
	in := labSample(lc)
	if !res.Complete {
		c.Violate("clean-did-not-complete", "", fmt.Sprintf("child died: %v %s", res.Err, res.Stderr), in)
		return
	}
	a := Analyze(res, lab.Src)
	c.Count("processes", 3)
	c.Count("addressed_calls", len(a.Calls))
	allowed := lab.AllowedListings(res, a)
	summaries := []*Summary{res.Summary}
	if res.Summary2 != nil {
		summaries = append(summaries, res.Summary2)
	}
	listedFile := func(p string) bool {
		for _, s := range summaries {
			if s != nil && inList(s.Files, p) {
				return true
			}
		}
		return false
	}
	listedTest := func(id string) int {
		n := 0
		for _, s := range summaries {
			if s != nil && countOf(s.Tests, id) > n {
				n = countOf(s.Tests, id)
			}
		}
		return n
	}
	files := map[string]bool{}
	twoCalls := false
	standalone := false
	perTest := map[string]int{}
	seen := map[[2]string]bool{}
	for _, cr := range a.Calls {
		perTest[cr.Test]++
		if perTest[cr.Test] >= 2*lc.Count {
			twoCalls = true
		}
		files[cr.Path] = true
		if cr.Call.Standalone() {
			standalone = true
			if !lab.existsPost(res, cr.Path) && lab.existsPre(res, cr.Path) {
				c.Violate("clean-removed-addressed-standalone-file", "", fmt.Sprintf("%s (call %d of %s) was addressed in this process and is gone after Clean", cr.Path, cr.Idx, cr.Test), in)
				return
			}
			if lab.existsPre(res, cr.Path) && lab.written(res, cr.Path) {
				c.Violate("clean-wrote-addressed-standalone-file", "", cr.Path, in)
				return
			}
			if listedFile(cr.Path) {
				c.Violate("addressed-standalone-file-listed-obsolete", "", cr.Path, in)
				return
			}
			continue
		}
		id := vkit.SlotID(cr.Test, cr.K)
		key := [2]string{cr.Path, id}
		if seen[key] {
			continue
		}
		seen[key] = true
		pre, _ := lab.preEntries(res, cr.Path)
		post, torn := vkit.ReadSnapFile(cr.Path)
		if len(torn) > 0 && !sd.Torn[cr.Path] {
			c.Violate("file-torn-after-clean", nonTestIDClass(id), strings.Join(torn, "; "), in)
			return
		}
		pi := vkit.FindEntries(pre, id)
		if len(pi) == 0 {
			continue // the call failed to record (e.g. CI): nothing Clean could discard
		}
		qi := vkit.FindEntries(post, id)
		if len(qi) != 1 {
			c.Violate("clean-discarded-addressed-entry", nonTestIDClass(id), fmt.Sprintf("[%s] of %s was addressed in this process (-count=%d -run=%q UPDATE_SNAPS=%q sort=%v); before Clean %d copy, after Clean %d", id, cr.Path, lc.Count, lc.Run, lc.Update, lc.Sort, len(pi), len(qi)), in)
			return
		}
		if pre[pi[0]].Body != post[qi[0]].Body {
			c.Violate("clean-altered-addressed-entry", nonTestIDClass(id), fmt.Sprintf("[%s]: %s -> %s", id, vkit.Q(pre[pi[0]].Body), vkit.Q(post[qi[0]].Body)), in)
			return
		}
		if listedTest(id) > allowed[id] {
			c.Violate("addressed-entry-listed-obsolete", nonTestIDClass(id), fmt.Sprintf("[%s] is listed %d time(s) although it was addressed (-count=%d); only %d unaddressed entries carry that id", id, listedTest(id), lc.Count, allowed[id]), in)
			return
		}
		if listedFile(cr.Path) {
			c.Violate("addressed-file-listed-obsolete", "", cr.Path, in)
			return
		}
		c.Count("entry_checks", 1)
	}
	// follow-up read-only process: everything addressed still replays
	res3 := prog.RunChild(RunOpt{PkgDir: lab.PkgDir, Scenario: lc.Scenario, Run: lc.Run, Count: lc.Count, Extra: lc.RunnerFlags(), CI: true})
	if res3.Complete {
		a3 := Analyze(res3, lab.Src)
		was := map[string]string{}
		for _, cr := range a.Calls {
			was[fmt.Sprintf("%s|%d|%d", cr.Test, cr.Exec, cr.Idx)] = cr.Outcome
		}
		for _, cr := range a3.Calls {
			w := was[fmt.Sprintf("%s|%d|%d", cr.Test, cr.Exec, cr.Idx)]
			if (w == vkit.Passed || w == vkit.Added || w == vkit.Updated) && cr.Outcome != vkit.Passed {
				id := vkit.SlotID(cr.Test, cr.K)
				c.Violate("followup-run-fails-after-clean", nonTestIDClass(id), fmt.Sprintf("%s call %d (k=%d) was %s in the judged run, after Clean a read-only run gives %s: %s", cr.Test, cr.Idx, cr.K, w, cr.Outcome, vkit.Clip(strings.Join(cr.Signals.Errors, "|"), 300)), in)
				return
			}
			c.Count("followup_checks", 1)
		}
	}
	if len(sd.Torn) > 0 {
		lc.Classes["file-with-unterminated-tail-entry"] = true
	}
	for k := range lc.Classes {
		c.Count("class:"+k, 1)
	}
	c.Count(fmt.Sprintf("count=%d", lc.Count), 1)
	nt := twoCalls && (lc.Count > 1 || len(files) >= 2 || standalone)
	c.Case(vkit.Hash(fmt.Sprint(in)), nt)
	if i%53 == 0 {
		c.Sample(in)
	}
}
