// Package engb is engine B: generated real test programs executed by the real
// `go test` runner as child processes, a JSONL event log written at the client
// boundary inside the child, and offline checkers over log + directory digests +
// Clean's captured stdout.
package engb

import (
	"bytes"
	"encoding/json"
	"fmt"
	"os"
	"os/exec"
	"path/filepath"
	"regexp"
	"runtime"
	"sort"
	"strconv"
	"strings"

	"verifharness/vkit"
)

type FileShape struct {
	Name  string
	Sfx   string
	Tests []string
	Fuzz  []string
	Bench []string
}

type PkgShape struct {
	Dir   string // relative to the module root ("" = root)
	Name  string
	Files []FileShape
}

type Shape struct {
	Pkgs []PkgShape
}

// DefaultShape: two test files plus a fuzz target in the root package, one
// nested package; helpers in a non-test file and in a sub-package.
func DefaultShape() Shape {
	return Shape{Pkgs: []PkgShape{
		{Dir: "", Name: "vprog", Files: []FileShape{
			{Name: "a_test.go", Sfx: "a", Tests: []string{"TestA", "TestAB", "TestA1", "TestA10"}, Bench: []string{"BenchmarkP", "BenchmarkQ", "BenchmarkQ2"}},
			{Name: "b_test.go", Sfx: "b", Tests: []string{"TestB", "TestC", "Test10", "Test2"}, Fuzz: []string{"FuzzX"}},
		}},
		{Dir: "deep/er", Name: "er", Files: []FileShape{
			{Name: "c_test.go", Sfx: "c", Tests: []string{"TestD", "TestE"}},
		}},
	}}
}

// Program is a built program on disk.
type Program struct {
	Root  string // module root
	Shape Shape
	Bins  map[string]string // pkg dir -> test binary
	Repo  string
	Trim  bool // built with -trimpath
}

func RepoPath() string {
	if r := os.Getenv("VERIF_REPO"); r != "" {
		return r
	}
	return "/repo"
}

func goEnv() []string {
	return append(os.Environ(), "GOFLAGS=-mod=mod", "GOPROXY=off", "GOSUMDB=off", "GOTOOLCHAIN=local")
}

// WriteProgram writes the sources of the shape under root.
func WriteProgram(root string, sh Shape) error {
	repo := RepoPath()
	if err := os.MkdirAll(root, 0o755); err != nil {
		return err
	}
	os.WriteFile(filepath.Join(root, "go.mod"), []byte(strings.ReplaceAll(tmplGoMod, "{{REPO}}", repo)), 0o644)
	sum, _ := os.ReadFile(filepath.Join(repo, "go.sum"))
	os.WriteFile(filepath.Join(root, "go.sum"), sum, 0o644)
	os.MkdirAll(filepath.Join(root, "util"), 0o755)
	os.WriteFile(filepath.Join(root, "util", "util.go"), []byte(tmplUtil), 0o644)
	for _, p := range sh.Pkgs {
		dir := filepath.Join(root, p.Dir)
		os.MkdirAll(dir, 0o755)
		os.WriteFile(filepath.Join(dir, "zz_main_test.go"), []byte(strings.ReplaceAll(tmplMain, "{{PKG}}", p.Name)), 0o644)
		os.WriteFile(filepath.Join(dir, "helper.go"), []byte(strings.ReplaceAll(tmplHelper, "{{PKG}}", p.Name)), 0o644)
		os.WriteFile(filepath.Join(dir, "zy_helpers_test.go"), []byte(strings.ReplaceAll(tmplOtherTestHelpers, "{{PKG}}", p.Name)), 0o644)
		for _, f := range p.Files {
			var fn strings.Builder
			for _, t := range f.Tests {
				fmt.Fprintf(&fn, "func %s(t *testing.T) { run_%s(t) }\n\n", t, f.Sfx)
			}
			for _, b := range f.Bench {
				fmt.Fprintf(&fn, "func %s(b *testing.B) { runB_%s(b) }\n\n", b, f.Sfx)
			}
			for _, z := range f.Fuzz {
				fmt.Fprintf(&fn, "func %s(f *testing.F) {\n\tf.Add(\"seed\")\n\tf.Add(\"other\")\n\tf.Fuzz(func(t *testing.T, s string) { run_%s(t) })\n}\n\n", z, f.Sfx)
			}
			src := tmplTestFile
			src = strings.ReplaceAll(src, "{{PKG}}", p.Name)
			src = strings.ReplaceAll(src, "{{SFX}}", f.Sfx)
			src = strings.ReplaceAll(src, "{{FILE}}", f.Name)
			src = strings.ReplaceAll(src, "{{EXTRAIMPORTS}}", "\t\"vprog/util\"")
			src = strings.ReplaceAll(src, "{{SUBPKGCALL}}", "util.Call(do)")
			src = strings.ReplaceAll(src, "{{TESTFUNCS}}", fn.String())
			os.WriteFile(filepath.Join(dir, f.Name), []byte(src), 0o644)
		}
	}
	return nil
}

// Build compiles one test binary per package. extra are additional go flags
// (e.g. "-trimpath", "-race"); tag distinguishes the output names.
func Build(root string, sh Shape, tag string, extra ...string) (*Program, error) {
	p := &Program{Root: root, Shape: sh, Bins: map[string]string{}, Repo: RepoPath()}
	for _, e := range extra {
		if e == "-trimpath" {
			p.Trim = true
		}
	}
	os.MkdirAll(filepath.Join(root, "bin"), 0o755)
	for _, pk := range sh.Pkgs {
		out := filepath.Join(root, "bin", strings.ReplaceAll("pkg_"+pk.Dir, "/", "_")+tag+".test")
		args := append([]string{"test", "-c", "-vet=off", "-o", out}, extra...)
		args = append(args, "./"+pk.Dir)
		cmd := exec.Command("go", args...)
		cmd.Dir = root
		cmd.Env = goEnv()
		var buf bytes.Buffer
		cmd.Stdout, cmd.Stderr = &buf, &buf
		if err := cmd.Run(); err != nil {
			return nil, fmt.Errorf("go %v: %v\n%s", args, err, buf.String())
		}
		p.Bins[pk.Dir] = out
	}
	return p, nil
}

// ---------------------------------------------------------------- scenario

type Matcher struct {
	Kind        string `json:"kind"`
	Path        string `json:"path"`
	Placeholder any    `json:"placeholder"`
}

type Call struct {
	API      string    `json:"api"`
	Val      string    `json:"val"`
	Form     string    `json:"form,omitempty"`
	Dir      string    `json:"dir,omitempty"`
	File     string    `json:"file,omitempty"`
	Ext      string    `json:"ext,omitempty"`
	Update   *bool     `json:"update,omitempty"`
	Via      string    `json:"via,omitempty"`
	Pkg      bool      `json:"pkg,omitempty"`
	Matchers []Matcher `json:"matchers,omitempty"`
	Tag      string    `json:"tag,omitempty"` // name of the subtest a subpkg-body call runs in
}

func (c Call) Standalone() bool { return c.API == "ssnap" || c.API == "sjson" }

type Node struct {
	Calls      []Call   `json:"calls,omitempty"`
	Skip       string   `json:"skip,omitempty"`
	SkipAt     int      `json:"skip_at,omitempty"`
	SkipExec   int      `json:"skip_exec,omitempty"` // > 0: the skip happens in that execution of the test only
	Parallel   bool     `json:"parallel,omitempty"`
	Subs       []string `json:"subs,omitempty"`
	Goroutines bool     `json:"goroutines,omitempty"`
	// SkipAfterSubs: the skip wrapper is called after the sub-tests were started (they ran, or,
	// when parallel, are paused and run after this test function returns)
	SkipAfterSubs bool `json:"skip_after_subs,omitempty"`
}

type Scenario struct {
	Nodes      map[string]*Node `json:"nodes"`
	CleanSort  bool             `json:"clean_sort"`
	CleanOpts  bool             `json:"clean_opts"`
	NoClean    bool             `json:"no_clean"`
	CleanTwice bool             `json:"clean_twice"` // Clean is called twice in a row in TestMain
	// CleanOptsN >= 2: the CleanOpts value is passed that many times (variadic parameter)
	CleanOptsN int `json:"clean_opts_n,omitempty"`
	// CleanBefore: TestMain also calls Clean before m.Run (only used when Clean may not delete)
	CleanBefore bool `json:"clean_before,omitempty"`
	// SetGoflags: TestMain appends this to GOFLAGS (os.Setenv) before m.Run
	SetGoflags string   `json:"set_goflags,omitempty"`
	Roots      []string `json:"roots"`
}

// ---------------------------------------------------------------- running

type RunOpt struct {
	PkgDir   string
	Scenario *Scenario
	Run      string
	Count    int
	CI       bool
	Update   string // UPDATE_SNAPS ("" = unset)
	Cwd      string // working directory ("" = package dir, as `go test` does)
	Fuzzless bool
	Extra    []string
	Env      []string
	Strace   string // when set: path of an strace log to produce
	// AsNobody: run the child as uid/gid 65534 with the given roots read-only (files 0444,
	// directories 0555): permission bits bind, as they do for an ordinary user on a
	// read-only checkout
	AsNobody bool
	// Writable (with AsNobody): the roots are made writable for everybody instead, except the
	// files listed in ReadOnly (0444)
	Writable bool
	ReadOnly []string
	// NoFile: when > 0 the child runs with this descriptor limit (soft and hard), an everyday
	// small limit (macOS default 256, containers) scaled down to the size of the scenario
	NoFile int
	Inject string // when set: strace fault injection, e.g. "unlink,unlinkat:error=EPERM" (every such call of the child fails)
}

type Event struct {
	Ev      string `json:"ev"`
	Seq     int64  `json:"seq"`
	Test    string `json:"test,omitempty"`
	Idx     int    `json:"idx,omitempty"`
	Call    *Call  `json:"call,omitempty"`
	SrcFile string `json:"srcfile,omitempty"`
	Of      int64  `json:"of,omitempty"`
	Kind    string `json:"kind,omitempty"`
	Text    string `json:"text,omitempty"`
	Wrapper string `json:"wrapper,omitempty"`
	Cwd     string `json:"cwd,omitempty"`
	Code    int    `json:"code,omitempty"`
}

type RunResult struct {
	Opt      RunOpt
	Events   []Event
	Initial  map[string]vkit.Digest
	Pre      map[string]vkit.Digest
	Post     map[string]vkit.Digest
	Final    map[string]vkit.Digest // taken by the parent after the child exited
	CIEnv    []string               // the CI-detection variables the child ran with
	TrimEnv  []string               // Go variables a -trimpath child ran with
	CleanOut string
	Summary  *Summary
	Summary2 *Summary                     // what the second Clean call printed (CleanTwice)
	PreFiles map[string]map[string]string // root -> rel -> content right before Clean
	Stderr   string
	Err      error
	Complete bool // the child reached the end of TestMain
}

// cleanEnv: CI detection looks at many vendor variables, so children get a
// minimal environment and an explicit CI=true when the cell says so.
func cleanEnv(o RunOpt, outdir, scn string) []string {
	env := []string{
		"PATH=" + os.Getenv("PATH"), "HOME=" + os.Getenv("HOME"), "TMPDIR=" + os.TempDir(),
		"NO_COLOR=1", "_=/usr/bin/env",
		"VERIF_SCENARIO=" + scn, "VERIF_OUTDIR=" + outdir,
	}
	env = append(env, ciEnv(o.CI, scn)...)
	env = append(env, ambientEnv(scn)...)
	if o.Update != "" {
		env = append(env, "UPDATE_SNAPS="+o.Update)
	}
	return append(env, o.Env...)
}

// ambientEnv: variables of no concern to the library that a shell, a terminal or a CI image
// exports; the flavour is a function of the scenario bytes.
func ambientEnv(scn string) []string {
	b, _ := os.ReadFile(scn)
	fl := [][]string{nil, nil, {"COLUMNS=80", "LINES=24", "TERM=xterm-256color", "TERM_PROGRAM=iTerm.app", "VTE_VERSION=7600", "WT_SESSION=1", "CLICOLOR_FORCE=1", "FORCE_COLOR=3"}, {"COLUMNS=120", "TERM=dumb", "LC_ALL=tr_TR.UTF-8"},
		{"COLUMNS=40", "TZ=Pacific/Kiritimati"}, {"COLUMNS=0", "TERM="}, {"COLUMNS=abc", "LINES=-1"}}
	return fl[vkit.Hash("ambient-flavour", string(b))%uint64(len(fl))]
}

// ciEnv: the variables by which the child is (or is not) detected as a CI run; the
// flavour is a function of the scenario file's bytes. Detection is ciinfo's: any of the
// generic variables or a vendor's variables being present, unless CI=false.
func ciEnv(ci bool, scn string) []string {
	b, _ := os.ReadFile(scn)
	h := vkit.Hash("ci-flavour", string(b))
	if ci {
		fl := [][]string{{"CI=true"}, {"CI=true"}, {"CI=1"}, {"CI="}, {"GITHUB_ACTIONS=true"}, {"BUILD_NUMBER=17"},
			{"CONTINUOUS_INTEGRATION=true"}, {"GITLAB_CI=true"}, {"CI=true", "GITHUB_ACTIONS=true"}, {"RUN_ID=5"}, {"CIRCLECI=true"}}
		return fl[h%uint64(len(fl))]
	}
	fl := [][]string{nil, nil, nil, {"CI=false"}, {"CI=false", "BUILD_NUMBER=17"}, {"CI=false", "GITHUB_ACTIONS=true"}}
	return fl[h%uint64(len(fl))]
}

// trimEnv: what the environment of a -trimpath test process may look like. `go test
// -trimpath` leaves GOFLAGS alone, `GOFLAGS=-trimpath go test` passes it on, and GOROOT
// is exported on many machines (version managers, CI images).
func trimEnv(scn string) []string {
	b, _ := os.ReadFile(scn)
	goroot := runtime.GOROOT()
	fl := [][]string{nil, nil, {"GOFLAGS=-trimpath"}, {"GOFLAGS=-mod=mod -trimpath"}, {"GOFLAGS=-mod=mod -trimpath", "GOROOT=" + goroot}, {"GOFLAGS=--trimpath -count=1"}, {"GOROOT=" + goroot}}
	return fl[vkit.Hash("trim-flavour", string(b))%uint64(len(fl))]
}

// plainEnv: Go variables a process of an ordinary (not -trimpath) build may find in its
// environment: nothing, GOFLAGS without -trimpath, or GOFLAGS that switches it off
// explicitly (a CI image exporting -trimpath=false to override a default).
func plainEnv(scn string) []string {
	b, _ := os.ReadFile(scn)
	fl := [][]string{nil, nil, nil, {"GOFLAGS=-mod=mod"}, {"GOFLAGS=-trimpath=false"}, {"GOFLAGS=-mod=mod -trimpath=false -count=1"}, {"GOFLAGS=-trimpath=0"}, {"GOFLAGS=-ldflags=-trimpath"}}
	return fl[vkit.Hash("plain-flavour", string(b))%uint64(len(fl))]
}

// RunChild executes one real test process.
func (p *Program) RunChild(o RunOpt) *RunResult {
	res := &RunResult{Opt: o}
	outdir := vkit.MkScratch("engb-out")
	defer os.RemoveAll(outdir)
	scn := filepath.Join(outdir, "scenario.json")
	b, _ := json.Marshal(o.Scenario)
	os.WriteFile(scn, b, 0o644)
	res.Initial = map[string]vkit.Digest{}
	for _, r := range o.Scenario.Roots {
		vkit.Backdate(r)
		res.Initial[r] = vkit.TakeDigest(r)
	}
	bin := p.Bins[o.PkgDir]
	args := []string{}
	if o.Run != "" {
		args = append(args, "-test.run="+o.Run)
	}
	if o.Count > 0 {
		args = append(args, "-test.count="+strconv.Itoa(o.Count))
	}
	args = append(args, "-test.paniconexit0=false")
	args = append(args, o.Extra...)
	name, full := bin, args
	if o.Strace != "" {
		name = "strace"
		full = append([]string{"-f", "-qq", "-e", "trace=openat,unlink,unlinkat,rename,renameat,renameat2,ftruncate,truncate,mkdir,mkdirat,rmdir", "-o", o.Strace, bin}, args...)
	}
	if o.Inject != "" && o.Strace == "" {
		calls := o.Inject[:strings.IndexByte(o.Inject, ':')]
		name = "strace"
		full = append([]string{"-f", "-qq", "-e", "trace=" + calls, "-e", "inject=" + o.Inject, "-o", "/dev/null", bin}, args...)
	}
	if o.NoFile > 0 {
		full = append([]string{fmt.Sprintf("--nofile=%d:%d", o.NoFile, o.NoFile), name}, full...)
		name = "prlimit"
	}
	if o.AsNobody {
		openUp := func(p string) {
			for ; p != "/" && p != "."; p = filepath.Dir(p) {
				if fi, err := os.Stat(p); err == nil && fi.IsDir() {
					os.Chmod(p, fi.Mode().Perm()|0o055)
				}
			}
		}
		openUp(filepath.Dir(bin))
		openUp(outdir)
		os.Chmod(outdir, 0o777)
		os.Chmod(scn, 0o644)
		for _, r := range o.Scenario.Roots {
			openUp(r)
			filepath.Walk(r, func(pth string, fi os.FileInfo, err error) error {
				if err == nil {
					switch {
					case fi.IsDir() && o.Writable:
						os.Chmod(pth, 0o777)
					case fi.IsDir():
						os.Chmod(pth, 0o555)
					case fi.Mode().IsRegular() && o.Writable:
						os.Chmod(pth, 0o666)
					case fi.Mode().IsRegular():
						os.Chmod(pth, 0o444)
					}
				}
				return nil
			})
		}
		for _, f := range o.ReadOnly {
			os.Chmod(f, 0o444)
		}
		full = append([]string{"--reuid=65534", "--regid=65534", "--clear-groups", name}, full...)
		name = "setpriv"
		defer func() {
			for _, r := range o.Scenario.Roots {
				filepath.Walk(r, func(pth string, fi os.FileInfo, err error) error {
					if err == nil && fi.IsDir() {
						os.Chmod(pth, 0o755)
					} else if err == nil && fi.Mode().IsRegular() {
						os.Chmod(pth, 0o644)
					}
					return nil
				})
			}
		}()
	}
	cmd := exec.Command("timeout", append([]string{"-s", "QUIT", "120", name}, full...)...)
	cmd.Dir = o.Cwd
	if cmd.Dir == "" {
		cmd.Dir = filepath.Join(p.Root, o.PkgDir)
	}
	cmd.Env = cleanEnv(o, outdir, scn)
	res.CIEnv = ciEnv(o.CI, scn)
	if p.Trim {
		res.TrimEnv = trimEnv(scn)
		cmd.Env = append(cmd.Env, res.TrimEnv...)
	} else {
		res.TrimEnv = plainEnv(scn)
		cmd.Env = append(cmd.Env, res.TrimEnv...)
	}
	var eb bytes.Buffer
	cmd.Stdout, cmd.Stderr = &eb, &eb
	res.Err = cmd.Run()
	res.Stderr = vkit.Clip(eb.String(), 4000)
	if f, err := os.ReadFile(filepath.Join(outdir, "events.jsonl")); err == nil {
		for _, l := range bytes.Split(f, []byte("\n")) {
			if len(l) == 0 {
				continue
			}
			var e Event
			if json.Unmarshal(l, &e) == nil {
				res.Events = append(res.Events, e)
				if e.Ev == "clean-done" || (e.Ev == "run-done" && o.Scenario.NoClean) {
					res.Complete = true
				}
			}
		}
	}
	readDig := func(when string) map[string]vkit.Digest {
		var d map[string]vkit.Digest
		if f, err := os.ReadFile(filepath.Join(outdir, "digest-"+when+".json")); err == nil {
			json.Unmarshal(f, &d)
		}
		return d
	}
	res.Pre, res.Post = readDig("pre"), readDig("post")
	res.Final = map[string]vkit.Digest{}
	for _, r := range o.Scenario.Roots {
		res.Final[r] = vkit.TakeDigest(r)
	}
	res.PreFiles = map[string]map[string]string{}
	for i, r := range o.Scenario.Roots {
		m := map[string]string{}
		base := filepath.Join(outdir, "precopy", strconv.Itoa(i))
		filepath.Walk(base, func(pth string, fi os.FileInfo, err error) error {
			if err == nil && fi.Mode().IsRegular() {
				rel, _ := filepath.Rel(base, pth)
				b, _ := os.ReadFile(pth)
				m[rel] = string(b)
			}
			return nil
		})
		res.PreFiles[r] = m
	}
	if f, err := os.ReadFile(filepath.Join(outdir, "clean.out")); err == nil {
		res.CleanOut = string(f)
		res.Summary = ParseSummary(res.CleanOut)
		// a -trimpath build registers (and reports) paths relative to the working directory
		for i, p := range res.Summary.Files {
			if !filepath.IsAbs(p) {
				res.Summary.Files[i] = filepath.Join(cmd.Dir, p)
			}
		}
		sort.Strings(res.Summary.Files)
		if f2, err := os.ReadFile(filepath.Join(outdir, "clean2.out")); err == nil {
			res.Summary2 = ParseSummary(string(f2))
			for i, p := range res.Summary2.Files {
				if !filepath.IsAbs(p) {
					res.Summary2.Files[i] = filepath.Join(cmd.Dir, p)
				}
			}
		}
	}
	return res
}

// ---------------------------------------------------------------- summary

type Summary struct {
	Passed, Failed, Added, Updated, Skipped int
	Files                                   []string
	Tests                                   []string
	FilesVerb                               string // obsolete | removed
	TestsVerb                               string
	Present                                 bool
	Unparsed                                []string
}

var evRE = regexp.MustCompile(`^\S+ (\d+) snapshots? (passed|failed|added|updated|skipped)$`)
var listRE = regexp.MustCompile(`^› (\d+) snapshot (files?|tests?) (obsolete|removed)$`)

// ParseSummary parses the NO_COLOR text Clean prints.
func ParseSummary(out string) *Summary {
	s := &Summary{}
	cur := ""
	for _, l := range strings.Split(out, "\n") {
		l = strings.TrimRight(l, "\r")
		switch {
		case strings.TrimSpace(l) == "":
			continue
		case strings.TrimSpace(l) == "Snapshot Summary":
			s.Present = true
		case evRE.MatchString(l):
			m := evRE.FindStringSubmatch(l)
			n, _ := strconv.Atoi(m[1])
			switch m[2] {
			case "passed":
				s.Passed = n
			case "failed":
				s.Failed = n
			case "added":
				s.Added = n
			case "updated":
				s.Updated = n
			case "skipped":
				s.Skipped = n
			}
		case listRE.MatchString(l):
			m := listRE.FindStringSubmatch(l)
			if strings.HasPrefix(m[2], "file") {
				cur = "files"
				s.FilesVerb = m[3]
			} else {
				cur = "tests"
				s.TestsVerb = m[3]
			}
		case strings.Contains(l, "• ") && strings.HasPrefix(strings.TrimSpace(l), "↳"):
			item := l[strings.Index(l, "• ")+len("• "):]
			if cur == "files" {
				s.Files = append(s.Files, item)
			} else if cur == "tests" {
				s.Tests = append(s.Tests, item)
			} else {
				s.Unparsed = append(s.Unparsed, l)
			}
		case strings.HasPrefix(l, "To remove "):
		default:
			s.Unparsed = append(s.Unparsed, l)
		}
	}
	sort.Strings(s.Files)
	sort.Strings(s.Tests)
	return s
}

// ---------------------------------------------------------------- log analysis

// CallRec is one Match* call reconstructed from the event log.
type CallRec struct {
	Seq      int64
	Test     string
	Idx      int
	Call     Call
	SrcFile  string
	Signals  vkit.Signals
	Outcome  string
	Returned bool
	K        int    // ordinal within its execution for its (generic path, test)
	Path     string // expected location (C11 function)
	Exec     int    // which execution of the test (0-based)
}

// Analysis is the per-run reconstruction used by all oracles.
type Analysis struct {
	Calls   []*CallRec
	Entered map[string]int // test -> number of executions started
	Skipped map[string]int // test -> snaps.Skip* events
	SkipEv  int
	PlainSk int
}

// ExpectedPath is the literal transcription of the C11 statement.
func ExpectedPath(pkgSrcDir, srcFile, test string, c Call, k int) string {
	dir := c.Dir
	if dir == "" {
		dir = "__snapshots__"
	}
	if !filepath.IsAbs(dir) {
		dir = filepath.Join(pkgSrcDir, dir)
	}
	ext := c.Ext
	if c.Standalone() {
		name := c.File
		if name == "" {
			name = strings.ReplaceAll(test, "/", "_")
		}
		if c.API == "sjson" && ext == "" {
			ext = ".json"
		}
		return filepath.Join(dir, fmt.Sprintf("%s_%d.snap%s", name, k, ext))
	}
	name := c.File
	if name == "" {
		name = strings.TrimSuffix(srcFile, ".go")
	}
	return filepath.Join(dir, name+".snap"+ext)
}

// Analyze rebuilds calls, outcomes and ordinals from the event log.
func Analyze(res *RunResult, pkgSrcDir string) *Analysis {
	a := &Analysis{Entered: map[string]int{}, Skipped: map[string]int{}}
	bySeq := map[int64]*CallRec{}
	type execState struct {
		n   int
		ord map[string]int
	}
	execs := map[string]*execState{}
	for _, e := range res.Events {
		switch e.Ev {
		case "enter":
			a.Entered[e.Test]++
			st := execs[e.Test]
			if st == nil {
				st = &execState{n: -1}
				execs[e.Test] = st
			}
			st.n++
			st.ord = map[string]int{}
		case "skip":
			if e.Wrapper == "plain" {
				a.PlainSk++
			} else {
				a.Skipped[e.Test]++
				a.SkipEv++
			}
		case "call":
			if e.Call.Via == "direct-othertest" || e.Call.Via == "nontest-via-othertest" {
				// the call statement sits in the package's helper-only test file
				e.SrcFile = "zy_helpers_test.go"
			}
			c := &CallRec{Seq: e.Seq, Test: e.Test, Idx: e.Idx, Call: *e.Call, SrcFile: e.SrcFile}
			st := execs[e.Test]
			if st == nil {
				st = &execState{ord: map[string]int{}}
				execs[e.Test] = st
			}
			key := ExpectedPath(pkgSrcDir, e.SrcFile, e.Test, *e.Call, 0)
			if !e.Call.Standalone() {
				key += "|" + e.Test
			}
			st.ord[key]++
			c.K = st.ord[key]
			c.Exec = st.n
			c.Path = ExpectedPath(pkgSrcDir, e.SrcFile, e.Test, *e.Call, c.K)
			bySeq[e.Seq] = c
			a.Calls = append(a.Calls, c)
		case "sig":
			if c := bySeq[e.Of]; c != nil {
				switch e.Kind {
				case "Error":
					c.Signals.Errors = append(c.Signals.Errors, e.Text)
				case "Log":
					c.Signals.Logs = append(c.Signals.Logs, e.Text)
				case "Cleanup":
					c.Signals.Cleanups++
				default:
					c.Signals.Skips = append(c.Signals.Skips, e.Kind)
				}
			}
		case "ret":
			if c := bySeq[e.Of]; c != nil {
				c.Returned = true
			}
		}
	}
	for _, c := range a.Calls {
		if !c.Returned {
			c.Outcome = vkit.Anomaly
		} else {
			c.Outcome = vkit.Classify(c.Signals)
		}
	}
	return a
}

func (p *Program) pkgSrcDir(pkgDir string) string { return filepath.Join(p.Root, pkgDir) }
