package engb

import (
	"encoding/json"
	"fmt"
	"path/filepath"
	"testing"

	"verifharness/vkit"
)

// TestSmoke builds the default program and runs one scenario (harness self-test).
func TestSmoke(t *testing.T) {
	c := vkit.NewCtxFromEnv("B")
	p, done := workerProgram(c, "")
	defer done()
	if p == nil {
		t.Fatal(c.P.Inconclusive)
	}
	snapdir := filepath.Join(p.Root, "__snapshots__")
	scn := &Scenario{Roots: []string{p.Root}, Nodes: map[string]*Node{
		"TestA":         {Calls: []Call{{API: "snap", Val: "hello"}, {API: "json", Val: `{"a":1}`}, {API: "ssnap", Val: "alone"}}, Subs: []string{"sub one"}},
		"TestA/sub_one": {Calls: []Call{{API: "snap", Val: "in sub", Via: "helper"}}},
		"TestB":         {Skip: "Skip", Calls: []Call{{API: "snap", Val: "never"}}},
		"FuzzX/seed#0":  {Calls: []Call{{API: "snap", Val: "fuzz"}}},
	}}
	res := p.RunChild(RunOpt{PkgDir: "", Scenario: scn})
	if !res.Complete {
		t.Fatalf("child did not complete: %v\n%s", res.Err, res.Stderr)
	}
	a := Analyze(res, p.pkgSrcDir(""))
	for _, cr := range a.Calls {
		fmt.Printf("%s idx=%d k=%d %s -> %s (%s)\n", cr.Test, cr.Idx, cr.K, cr.Call.API, cr.Outcome, cr.Path)
	}
	b, _ := json.Marshal(res.Summary)
	fmt.Println(string(b))
	fmt.Println(res.CleanOut)
	fmt.Println(a.Entered, a.Skipped)
	ents, torn := vkit.ReadSnapFile(filepath.Join(snapdir, "a_test.snap"))
	fmt.Println(ents, torn)
	res2 := p.RunChild(RunOpt{PkgDir: "", Scenario: scn, Run: "TestA$", Count: 2, Update: "clean"})
	fmt.Println(res2.CleanOut, res2.Pre[p.Root].Diff(res2.Post[p.Root], false))
}
