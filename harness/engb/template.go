package engb

// Source templates of the generated test programs (engine B). The program is a
// real Go module whose tests are driven by a JSON scenario; every test file
// carries its own copy of the interpreter so that the first *_test.go frame on
// the stack of a Match* call is the file that "owns" the test, exactly as in a
// hand-written test package.

const tmplGoMod = `module vprog

go 1.22

require github.com/gkampitakis/go-snaps v0.0.0

replace github.com/gkampitakis/go-snaps => {{REPO}}
`

// common part of each package's test binary: scenario, event log, digest, TestMain.
const tmplMain = `package {{PKG}}

import (
	"crypto/sha256"
	"encoding/hex"
	"encoding/json"
	"fmt"
	"io/fs"
	"os"
	"path/filepath"
	"strings"
	"sync"
	"sync/atomic"
	"syscall"
	"testing"
	"time"

	"github.com/gkampitakis/go-snaps/match"
	"github.com/gkampitakis/go-snaps/snaps"
)

type vMatcher struct {
	Kind        string ` + "`json:\"kind\"`" + `
	Path        string ` + "`json:\"path\"`" + `
	Placeholder any    ` + "`json:\"placeholder\"`" + `
}

type vCall struct {
	API      string     ` + "`json:\"api\"`" + `
	Val      string     ` + "`json:\"val\"`" + `
	Form     string     ` + "`json:\"form,omitempty\"`" + `
	Dir      string     ` + "`json:\"dir,omitempty\"`" + `
	File     string     ` + "`json:\"file,omitempty\"`" + `
	Ext      string     ` + "`json:\"ext,omitempty\"`" + `
	Update   *bool      ` + "`json:\"update,omitempty\"`" + `
	Via      string     ` + "`json:\"via,omitempty\"`" + `
	Pkg      bool       ` + "`json:\"pkg,omitempty\"`" + `
	Matchers []vMatcher ` + "`json:\"matchers,omitempty\"`" + `
	Tag      string     ` + "`json:\"tag,omitempty\"`" + `
}

type vNode struct {
	Calls      []vCall  ` + "`json:\"calls,omitempty\"`" + `
	Skip       string   ` + "`json:\"skip,omitempty\"`" + `
	SkipAt     int      ` + "`json:\"skip_at,omitempty\"`" + `
	SkipExec   int      ` + "`json:\"skip_exec,omitempty\"`" + `
	Parallel   bool     ` + "`json:\"parallel,omitempty\"`" + `
	Subs       []string ` + "`json:\"subs,omitempty\"`" + `
	Goroutines bool     ` + "`json:\"goroutines,omitempty\"`" + `
	SkipAfterSubs bool  ` + "`json:\"skip_after_subs,omitempty\"`" + `
}

type vScenario struct {
	Nodes     map[string]*vNode ` + "`json:\"nodes\"`" + `
	CleanSort bool              ` + "`json:\"clean_sort\"`" + `
	CleanOpts bool              ` + "`json:\"clean_opts\"`" + `
	NoClean   bool              ` + "`json:\"no_clean\"`" + `
	CleanTwice bool             ` + "`json:\"clean_twice\"`" + `
	Roots     []string          ` + "`json:\"roots\"`" + `
	Probe     string            ` + "`json:\"probe,omitempty\"`" + `
	CleanOptsN  int             ` + "`json:\"clean_opts_n,omitempty\"`" + `
	CleanBefore bool            ` + "`json:\"clean_before,omitempty\"`" + `
	SetGoflags  string          ` + "`json:\"set_goflags,omitempty\"`" + `
}

// vclean calls snaps.Clean the way the scenario asks for: without options, with one
// CleanOpts value, or with the same value several times (the parameter is variadic).
func vclean(m *testing.M) {
	if !(vscn.CleanOpts || vscn.CleanSort) {
		snaps.Clean(m)
		return
	}
	opts := []snaps.CleanOpts{{Sort: vscn.CleanSort}}
	for len(opts) < vscn.CleanOptsN {
		opts = append(opts, snaps.CleanOpts{Sort: vscn.CleanSort})
	}
	snaps.Clean(m, opts...)
}

var (
	vscn    vScenario
	vexecMu sync.Mutex
	vexecs  = map[string]int{} // executions of each test so far in this process
	vlogMu  sync.Mutex
	vlogF  *os.File
	vseq   int64
)

func vlog(ev map[string]any) {
	ev["seq"] = atomic.AddInt64(&vseq, 1)
	b, _ := json.Marshal(ev)
	vlogMu.Lock()
	if vlogF != nil {
		vlogF.Write(append(b, '\n'))
	}
	vlogMu.Unlock()
}

// recT records every signal a Match*/Skip* call sends to the test, then forwards it.
type recT struct {
	t  testing.TB
	of int64
}

func (r *recT) Helper()      { r.t.Helper() }
func (r *recT) Name() string { return r.t.Name() }
func (r *recT) Skip(args ...any) {
	vlog(map[string]any{"ev": "sig", "of": r.of, "kind": "Skip", "text": fmt.Sprint(args...)})
	r.t.Skip(args...)
}
func (r *recT) Skipf(f string, args ...any) {
	vlog(map[string]any{"ev": "sig", "of": r.of, "kind": "Skipf", "text": fmt.Sprintf(f, args...)})
	r.t.Skipf(f, args...)
}
func (r *recT) SkipNow() {
	vlog(map[string]any{"ev": "sig", "of": r.of, "kind": "SkipNow"})
	r.t.SkipNow()
}
func (r *recT) Error(args ...any) {
	vlog(map[string]any{"ev": "sig", "of": r.of, "kind": "Error", "text": fmt.Sprint(args...)})
	if os.Getenv("VERIF_FORWARD_ERRORS") != "" {
		r.t.Error(args...)
	}
}
func (r *recT) Log(args ...any) {
	vlog(map[string]any{"ev": "sig", "of": r.of, "kind": "Log", "text": fmt.Sprint(args...)})
	r.t.Log(args...)
}
func (r *recT) Cleanup(f func()) {
	vlog(map[string]any{"ev": "sig", "of": r.of, "kind": "Cleanup"})
	r.t.Cleanup(f)
}

func vconfig(c vCall) *snaps.Config {
	var opts []func(*snaps.Config)
	if c.Dir != "" {
		opts = append(opts, snaps.Dir(c.Dir))
	}
	if c.File != "" {
		opts = append(opts, snaps.Filename(c.File))
	}
	if c.Ext != "" {
		opts = append(opts, snaps.Ext(c.Ext))
	}
	if c.Update != nil {
		opts = append(opts, snaps.Update(*c.Update))
	}
	return snaps.WithConfig(opts...)
}

// vFailingMarshaler: a Go value the encoders reject through its own marshal methods.
type vFailingMarshaler struct{ Why string }

func (f vFailingMarshaler) MarshalJSON() ([]byte, error) { return nil, fmt.Errorf("%s", f.Why) }
func (f vFailingMarshaler) MarshalYAML() ([]byte, error) { return nil, fmt.Errorf("%s", f.Why) }

func vinput(c vCall) any {
	switch c.Form {
	case "bytes":
		return []byte(c.Val)
	case "marshal-error":
		return map[string]any{"reading": vFailingMarshaler{Why: "sensor offline"}, "n": 1}
	case "unsupported-value":
		return map[string]any{"ch": make(chan int)}
	}
	return c.Val
}

// vsnap: the values of a MatchSnapshot call. Form "library-values": next to the text, values
// of the library's own types (a matcher, a Config) - Go values like any other.
func vsnap(c vCall) []any {
	if c.Form == "library-values" {
		return []any{c.Val, match.Any("user.id", "user.token").Placeholder("<id>"), match.Type[string]("name"), snaps.WithConfig(snaps.Filename("x"))}
	}
	return []any{c.Val}
}

func vjsonMatchers(c vCall) []match.JSONMatcher {
	var ms []match.JSONMatcher
	for _, m := range c.Matchers {
		switch m.Kind {
		case "any":
			ms = append(ms, match.Any(m.Path).Placeholder(m.Placeholder))
		case "any-missing-ok":
			ms = append(ms, match.Any(m.Path).ErrOnMissingPath(false))
		}
	}
	return ms
}

func vyamlMatchers(c vCall) []match.YAMLMatcher {
	var ms []match.YAMLMatcher
	for _, m := range c.Matchers {
		switch m.Kind {
		case "any":
			ms = append(ms, match.Any(m.Path).Placeholder(m.Placeholder))
		case "any-missing-ok":
			ms = append(ms, match.Any(m.Path).ErrOnMissingPath(false))
		}
	}
	return ms
}

type digestEntry struct {
	Type  string ` + "`json:\"type\"`" + `
	Mode  uint32 ` + "`json:\"mode\"`" + `
	Size  int64  ` + "`json:\"size\"`" + `
	SHA   string ` + "`json:\"sha,omitempty\"`" + `
	Ino   uint64 ` + "`json:\"ino\"`" + `
	Mtime int64  ` + "`json:\"mtime_ns\"`" + `
}

var vBackdated = time.Date(2001, 2, 3, 4, 5, 6, 0, time.UTC)

func vdigest(when string, backdate bool) {
	out := map[string]map[string]digestEntry{}
	for ri, root := range vscn.Roots {
		var paths []string
		filepath.WalkDir(root, func(p string, de fs.DirEntry, err error) error {
			if err == nil {
				paths = append(paths, p)
			}
			return nil
		})
		if backdate {
			for i := len(paths) - 1; i >= 0; i-- {
				os.Chtimes(paths[i], vBackdated, vBackdated)
			}
		}
		d := map[string]digestEntry{}
		for _, p := range paths {
			fi, err := os.Lstat(p)
			if err != nil {
				continue
			}
			rel, _ := filepath.Rel(root, p)
			if rel == "bin" || strings.HasPrefix(rel, "bin/") {
				continue
			}
			if when == "pre" && (fi.Mode().IsRegular() || fi.Mode()&os.ModeSymlink != 0) && fi.Size() < 8<<20 && (strings.Contains(rel, ".snap") || strings.Contains(rel, "__snapshots__")) {
				if b, err := os.ReadFile(p); err == nil {
					dst := filepath.Join(os.Getenv("VERIF_OUTDIR"), "precopy", fmt.Sprint(ri), rel)
					os.MkdirAll(filepath.Dir(dst), 0o755)
					os.WriteFile(dst, b, 0o644)
				}
			}
			e := digestEntry{Mode: uint32(fi.Mode().Perm()), Size: fi.Size(), Mtime: fi.ModTime().UnixNano()}
			if st, ok := fi.Sys().(*syscall.Stat_t); ok {
				e.Ino = st.Ino
			}
			switch {
			case fi.Mode().IsRegular():
				e.Type = "f"
				if b, err := os.ReadFile(p); err == nil {
					h := sha256.Sum256(b)
					e.SHA = hex.EncodeToString(h[:])
				}
			case fi.IsDir():
				e.Type = "d"
				e.Size = 0
			case fi.Mode()&os.ModeSymlink != 0:
				e.Type = "l"
			default:
				e.Type = "?"
			}
			d[rel] = e
		}
		out[root] = d
	}
	b, _ := json.Marshal(out)
	os.WriteFile(os.Getenv("VERIF_OUTDIR")+"/digest-"+when+".json", b, 0o644)
}

func TestMain(m *testing.M) {
	b, err := os.ReadFile(os.Getenv("VERIF_SCENARIO"))
	if err != nil {
		fmt.Fprintln(os.Stderr, "no scenario:", err)
		os.Exit(3)
	}
	if err := json.Unmarshal(b, &vscn); err != nil {
		fmt.Fprintln(os.Stderr, "bad scenario:", err)
		os.Exit(3)
	}
	vlogF, err = os.OpenFile(os.Getenv("VERIF_OUTDIR")+"/events.jsonl", os.O_CREATE|os.O_WRONLY|os.O_APPEND, 0o644)
	if err != nil {
		fmt.Fprintln(os.Stderr, err)
		os.Exit(3)
	}
	wd, _ := os.Getwd()
	vlog(map[string]any{"ev": "proc", "args": os.Args, "cwd": wd})
	if vscn.SetGoflags != "" {
		// a TestMain that prepares the environment of the go build / go run children its
		// tests start: what the test binary itself was built with is long decided
		os.Setenv("GOFLAGS", strings.TrimSpace(os.Getenv("GOFLAGS")+" "+vscn.SetGoflags))
	}
	if vscn.CleanBefore {
		// Clean is also called BEFORE the tests run (a TestMain that reports first): nothing is
		// registered yet, everything is listed; in a mode that may not delete this is harmless
		// and must not change what the calls and the final Clean do
		old := os.Stdout
		f0, _ := os.Create(os.Getenv("VERIF_OUTDIR") + "/clean0.out")
		os.Stdout = f0
		func() {
			defer func() {
				if r := recover(); r != nil {
					vlog(map[string]any{"ev": "clean-panic", "text": fmt.Sprint(r)})
				}
			}()
			vclean(m)
		}()
		f0.Close()
		os.Stdout = old
		vlog(map[string]any{"ev": "clean-before-done"})
	}
	code := m.Run()
	vlog(map[string]any{"ev": "run-done", "code": code})
	if !vscn.NoClean {
		vdigest("pre", true)
		old := os.Stdout
		f, _ := os.Create(os.Getenv("VERIF_OUTDIR") + "/clean.out")
		os.Stdout = f
		func() {
			defer func() {
				if r := recover(); r != nil {
					vlog(map[string]any{"ev": "clean-panic", "text": fmt.Sprint(r)})
				}
			}()
			vclean(m)
		}()
		f.Close()
		if vscn.CleanTwice {
			// Clean is called a second time in the same process (e.g. once to report, once to sort)
			f2, _ := os.Create(os.Getenv("VERIF_OUTDIR") + "/clean2.out")
			os.Stdout = f2
			func() {
				defer func() {
					if r := recover(); r != nil {
						vlog(map[string]any{"ev": "clean-panic", "text": fmt.Sprint(r)})
					}
				}()
				vclean(m)
			}()
			f2.Close()
		}
		os.Stdout = old
		vdigest("post", false)
		vlog(map[string]any{"ev": "clean-done"})
	}
	vlogMu.Lock()
	vlogF.Close()
	vlogF = nil
	vlogMu.Unlock()
	_ = strings.TrimSpace
	os.Exit(0)
}
`

// per-test-file part: interpreter, call dispatcher and the static Test functions.
const tmplTestFile = `package {{PKG}}

import (
	"fmt"
	"runtime"
	"strings"
	"sync"
	"testing"

	"github.com/gkampitakis/go-snaps/snaps"
{{EXTRAIMPORTS}}
)

var _ = fmt.Sprint

func call_{{SFX}}(t testing.TB, c vCall, idx int) {
	rec := &recT{t: t}
	ev := map[string]any{"ev": "call", "test": t.Name(), "idx": idx, "call": c, "srcfile": "{{FILE}}"}
	vlog(ev)
	rec.of = ev["seq"].(int64)
	do := func() {
		cfg := vconfig(c)
		switch c.API {
		case "snap":
			if c.Pkg {
				snaps.MatchSnapshot(rec, vsnap(c)...)
			} else {
				cfg.MatchSnapshot(rec, vsnap(c)...)
			}
		case "json":
			if c.Pkg {
				snaps.MatchJSON(rec, vinput(c), vjsonMatchers(c)...)
			} else {
				cfg.MatchJSON(rec, vinput(c), vjsonMatchers(c)...)
			}
		case "yaml":
			if c.Pkg {
				snaps.MatchYAML(rec, vinput(c), vyamlMatchers(c)...)
			} else {
				cfg.MatchYAML(rec, vinput(c), vyamlMatchers(c)...)
			}
		case "ssnap":
			if c.Pkg {
				snaps.MatchStandaloneSnapshot(rec, c.Val)
			} else {
				cfg.MatchStandaloneSnapshot(rec, c.Val)
			}
		case "sjson":
			if c.Pkg {
				snaps.MatchStandaloneJSON(rec, vinput(c), vjsonMatchers(c)...)
			} else {
				cfg.MatchStandaloneJSON(rec, vinput(c), vjsonMatchers(c)...)
			}
		}
	}
	direct := func() {
		cfg := vconfig(c)
		switch c.API {
		case "snap":
			DirectSnapshot(cfg, rec, c.Val)
		case "json":
			DirectJSON(cfg, rec, vinput(c))
		case "yaml":
			DirectYAML(cfg, rec, vinput(c))
		case "ssnap":
			DirectStandalone(cfg, rec, c.Val)
		default:
			DirectStandaloneJSON(cfg, rec, vinput(c))
		}
	}
	deep := 0
	if strings.HasPrefix(c.Via, "deep-nontest-") {
		fmt.Sscanf(c.Via, "deep-nontest-%d", &deep)
	}
	// bare deferred calls (defer cfg.MatchSnapshot(t, v), no wrapping closure) that run while
	// the goroutine unwinds: frames of package runtime lie between the call and the test code
	deferred := func(unwind func()) {
		cfg := vconfig(c)
		switch c.API {
		case "snap":
			defer cfg.MatchSnapshot(rec, c.Val)
		case "json":
			defer cfg.MatchJSON(rec, vinput(c))
		case "yaml":
			defer cfg.MatchYAML(rec, vinput(c))
		case "ssnap":
			defer cfg.MatchStandaloneSnapshot(rec, c.Val)
		default:
			defer cfg.MatchStandaloneJSON(rec, vinput(c))
		}
		unwind()
	}
	switch c.Via {
	case "defer-panic":
		func() {
			defer func() { recover() }()
			deferred(func() { panic("unwinding on purpose") })
		}()
	case "defer-goexit":
		var wg sync.WaitGroup
		wg.Add(1)
		go func() {
			defer wg.Done()
			deferred(runtime.Goexit)
		}()
		wg.Wait()
	case "defer-return":
		deferred(func() {})
	case "direct-othertest":
		OtherTestDirect(c.API, vconfig(c), rec, c.Val, vinput(c))
	case "subpkg-body":
		// the call is made by a subtest whose body is defined in a non-test file of the
		// sub-package (signals of the subtest are logged under this call)
		if tt, ok := t.(*testing.T); ok {
			tt.Run("body"+c.Tag, util.Body(c.API, vconfig(c), func(st *testing.T) util.T { return &recT{t: st, of: rec.of} }, c.Val, vinput(c)))
		}
	case "nontest-via-othertest":
		// the same non-test call statements as direct-nontest, reached through a function of
		// another test file of the package: that file is the nearest test file on the stack
		OtherTestNonTest(c.API, vconfig(c), rec, c.Val, vinput(c))
	case "direct-nontest":
		direct()
	case "direct-nontest-helper":
		ViaHelper(direct)
	case "helper":
		ViaHelper(do)
	case "helper2":
		ViaHelper(func() { ViaHelper(do) })
	case "subpkg":
		{{SUBPKGCALL}}
	case "closure":
		func() { func() { do() }() }()
	case "goroutine":
		var wg sync.WaitGroup
		wg.Add(1)
		go func() { defer wg.Done(); do() }()
		wg.Wait()
	default:
		if deep > 0 {
			// the Match* call statement sits below <deep> frames of a non-test file
			DeepDirect(deep, c.API, vconfig(c), rec, c.Val, vinput(c))
		} else {
			do()
		}
	}
	vlog(map[string]any{"ev": "ret", "of": rec.of})
}

func run_{{SFX}}(t *testing.T) {
	runTB_{{SFX}}(t, func(name string, f func(t *testing.T)) { t.Run(name, f) })
}

// runB: the same interpreter driven by a benchmark handle (go test -bench): sub-nodes run
// as sub-benchmarks.
func runB_{{SFX}}(b *testing.B) {
	runTB_{{SFX}}(b, func(name string, _ func(t *testing.T)) { b.Run(name, runB_{{SFX}}) })
}

func runTB_{{SFX}}(t testing.TB, sub func(name string, f func(t *testing.T))) {
	name := t.Name()
	vlog(map[string]any{"ev": "enter", "test": name})
	defer vlog(map[string]any{"ev": "leave", "test": name})
	node := vscn.Nodes[name]
	if node == nil {
		return
	}
	if node.Parallel {
		if tt, ok := t.(*testing.T); ok {
			tt.Parallel()
		}
	}
	vexecMu.Lock()
	vexecs[name]++
	execNo := vexecs[name]
	vexecMu.Unlock()
	skip := func() {
		if node.SkipExec > 0 && node.SkipExec != execNo {
			return // the skip happens in one execution of the test only
		}
		vlog(map[string]any{"ev": "skip", "test": name, "wrapper": node.Skip})
		rec := &recT{t: t, of: -1}
		switch node.Skip {
		case "Skip":
			snaps.Skip(rec, "skipped by scenario")
		case "Skipf":
			snaps.Skipf(rec, "skipped %s", "by scenario")
		case "SkipNow":
			snaps.SkipNow(rec)
		case "plain":
			t.Skip("plain testing skip")
		}
	}
	if node.Goroutines {
		var wg sync.WaitGroup
		for i, c := range node.Calls {
			wg.Add(1)
			go func(i int, c vCall) {
				defer wg.Done()
				call_{{SFX}}(t, c, i)
			}(i, c)
		}
		wg.Wait()
	} else {
		for i, c := range node.Calls {
			if node.Skip != "" && node.SkipAt == i {
				skip()
			}
			call_{{SFX}}(t, c, i)
		}
	}
	if node.Skip != "" && node.SkipAt >= len(node.Calls) && !node.SkipAfterSubs {
		skip()
	}
	for _, s := range node.Subs {
		sub(s, run_{{SFX}})
	}
	if node.Skip != "" && node.SkipAfterSubs {
		skip()
	}
	_ = strings.TrimSpace
}

{{TESTFUNCS}}
`

const tmplHelper = `package {{PKG}}

import (
	"github.com/gkampitakis/go-snaps/snaps"
)

// ViaHelper lives in a non-test source file: a frame of this file lies between
// the test function and the Match* call.
func ViaHelper(f func()) { f() }

// HelperT is what the snaps entry points need from a test handle.
type HelperT interface {
	Helper()
	Skip(...any)
	Skipf(string, ...any)
	SkipNow()
	Name() string
	Error(...any)
	Log(...any)
	Cleanup(func())
}

// DirectSnapshot / DirectJSON / DirectStandalone: the Match* call statement itself
// is in this non-test file, one shared call site for every test file that uses it
// (noinline: real assertion helpers are too big to be inlined; an inlined helper
// would have one call site per caller).
//
//go:noinline
func DirectSnapshot(c *snaps.Config, t HelperT, v any) { c.MatchSnapshot(t, v) }

//go:noinline
func DirectJSON(c *snaps.Config, t HelperT, v any) { c.MatchJSON(t, v) }

//go:noinline
func DirectYAML(c *snaps.Config, t HelperT, v any) { c.MatchYAML(t, v) }

//go:noinline
func DirectStandalone(c *snaps.Config, t HelperT, v any) { c.MatchStandaloneSnapshot(t, v) }

//go:noinline
func DirectStandaloneJSON(c *snaps.Config, t HelperT, v any) { c.MatchStandaloneJSON(t, v) }

// DeepDirect: <n> recursive frames of this non-test file between the test file and the
// Match* call statement (table-driven assertion helpers, visitors, retry wrappers).
//
//go:noinline
func DeepDirect(n int, api string, c *snaps.Config, t HelperT, val string, in any) {
	if n > 0 {
		DeepDirect(n-1, api, c, t, val, in)
		return
	}
	switch api {
	case "snap":
		DirectSnapshot(c, t, val)
	case "json":
		DirectJSON(c, t, in)
	case "yaml":
		DirectYAML(c, t, in)
	case "ssnap":
		DirectStandalone(c, t, val)
	default:
		DirectStandaloneJSON(c, t, in)
	}
}
`

// tmplOtherTestHelpers: a _test.go file that holds assertion helpers and no test function;
// default-named snapshots of calls made here are named after THIS file.
const tmplOtherTestHelpers = `package {{PKG}}

import (
	"github.com/gkampitakis/go-snaps/snaps"
)

//go:noinline
func OtherTestDirect(api string, c *snaps.Config, t HelperT, val string, in any) {
	switch api {
	case "snap":
		c.MatchSnapshot(t, val)
	case "json":
		c.MatchJSON(t, in)
	case "yaml":
		c.MatchYAML(t, in)
	case "ssnap":
		c.MatchStandaloneSnapshot(t, val)
	default:
		c.MatchStandaloneJSON(t, in)
	}
}

//go:noinline
func OtherTestNonTest(api string, c *snaps.Config, t HelperT, val string, in any) {
	switch api {
	case "snap":
		DirectSnapshot(c, t, val)
	case "json":
		DirectJSON(c, t, in)
	case "yaml":
		DirectYAML(c, t, in)
	case "ssnap":
		DirectStandalone(c, t, val)
	default:
		DirectStandaloneJSON(c, t, in)
	}
}
`

const tmplUtil = `package util

import (
	"testing"

	"github.com/gkampitakis/go-snaps/snaps"
)

// Call lives in a sub-package (non-test file).
func Call(f func()) { f() }

// T is what the Match* entry points need.
type T interface {
	Helper()
	Skip(...any)
	Skipf(string, ...any)
	SkipNow()
	Name() string
	Error(...any)
	Log(...any)
	Cleanup(func())
}

// Body returns a subtest body defined in this non-test file of another directory (the usual
// shape of a shared golden/table helper: t.Run("x", util.Body(...))): when it runs, no test
// file is on the stack between the Match* call and the test runner.
func Body(api string, c *snaps.Config, wrap func(*testing.T) T, val string, in any) func(*testing.T) {
	return func(tt *testing.T) {
		t := wrap(tt)
		switch api {
		case "snap":
			c.MatchSnapshot(t, val)
		case "json":
			c.MatchJSON(t, in)
		case "yaml":
			c.MatchYAML(t, in)
		case "ssnap":
			c.MatchStandaloneSnapshot(t, val)
		default:
			c.MatchStandaloneJSON(t, in)
		}
	}
}
`
