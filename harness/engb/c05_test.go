package engb

import (
	"fmt"
	"os"
	"path/filepath"
	"sort"
	"strings"

	"github.com/maruel/natural"

	"verifharness/vkit"
)

func init() { register("C05", checkC05) }

type cell struct {
	Name      string
	Upd       int // 0 unset, 1 true, 2 false
	API       string
	State     string // missing | equal | different
	Obsolete  bool
	Dir       string
	FreshDir  bool // the snapshot directory (three levels) does not exist before the run
	EmptyFile bool // the multi-entry file exists before the run and has 0 bytes
}

func updPtr(u int) *bool {
	switch u {
	case 1:
		t := true
		return &t
	case 2:
		f := false
		return &f
	}
	return nil
}

var apis5 = []string{"snap", "json", "yaml", "ssnap", "sjson"}

// valueRound selects the value family of a sweep of the table: 0 plain values, 1 the
// stored "different" value is blank (empty / whitespace-only), 2 hostile lines.
var valueRound int

func liveVal(api string, variant string) (input, stored string) {
	if valueRound%3 == 1 && variant == "other" && (api == "snap" || api == "ssnap") {
		b := []string{"", "\n  \n", " "}[valueRound/3%3]
		return b, b
	}
	if valueRound%3 == 2 && (api == "snap" || api == "ssnap") {
		v := "first\n/-/-/-/\n[TestZStale - 1]\n\n" + variant
		return v, v
	}
	switch api {
	case "json", "sjson":
		return fmt.Sprintf(`{"v":"%s"}`, variant), fmt.Sprintf("{\n \"v\": \"%s\"\n}", variant)
	case "yaml":
		return fmt.Sprintf("v: %s\n", variant), fmt.Sprintf("v: %s\n", variant)
	}
	return "v-" + variant, "v-" + variant
}

func multiFile(api string) bool { return api == "snap" || api == "json" || api == "yaml" }

// seedCell prepares the directory of one cell and returns the paths that are stale.
func seedCell(c cell, test string) (staleFiles []string, staleIDs []string) {
	os.MkdirAll(c.Dir, 0o755)
	_, live := liveVal(c.API, "live")
	_, other := liveVal(c.API, "other")
	if multiFile(c.API) {
		var ents []vkit.SnapEntry
		if c.Obsolete {
			ents = append(ents, vkit.SnapEntry{ID: "TestZStale - 1", Body: "stale body"})
			staleIDs = append(staleIDs, "TestZStale - 1")
		}
		// second (always equal) entry first: the file is unsorted before Clean
		ents = append(ents, vkit.SnapEntry{ID: test + " - 2", Body: live})
		switch c.State {
		case "equal":
			ents = append(ents, vkit.SnapEntry{ID: test + " - 1", Body: live})
		case "different":
			ents = append(ents, vkit.SnapEntry{ID: test + " - 1", Body: other})
		}
		os.WriteFile(filepath.Join(c.Dir, "cell.snap"), []byte(vkit.RenderSnapFile(ents)), 0o644)
		if c.Obsolete {
			p := filepath.Join(c.Dir, "TestZStale_1.snap")
			os.WriteFile(p, []byte("stale standalone"), 0o644)
			staleFiles = append(staleFiles, p)
		}
		return
	}
	ext := ".snap"
	if c.API == "sjson" {
		ext = ".snap.json"
	}
	p := filepath.Join(c.Dir, strings.ReplaceAll(test, "/", "_")+"_1"+ext)
	switch c.State {
	case "equal":
		os.WriteFile(p, []byte(live), 0o644)
	case "different":
		os.WriteFile(p, []byte(other), 0o644)
	}
	if c.Obsolete {
		sp := filepath.Join(c.Dir, "TestZStale_1.snap")
		os.WriteFile(sp, []byte("stale standalone"), 0o644)
		mp := filepath.Join(c.Dir, "stale_multi.snap")
		os.WriteFile(mp, []byte(vkit.RenderSnapFile([]vkit.SnapEntry{{ID: "TestZStale - 1", Body: "stale body"}})), 0o644)
		staleFiles = append(staleFiles, sp, mp)
	}
	return
}

func naturalSorted(ids []string) bool {
	return sort.SliceIsSorted(ids, func(i, j int) bool { return natural.Less(ids[i], ids[j]) })
}

func entryIDs(es []vkit.SnapEntry) []string {
	out := make([]string, len(es))
	for i, e := range es {
		out[i] = e.ID
	}
	return out
}

// checkC05 sweeps the complete mode table with real environment variables:
// 16 child processes (CI x UPDATE_SNAPS x Sort), 90 + 15 cells each.
func checkC05(c *vkit.Ctx) {
	c.P.Rule = "complete product CI{on,off} x Update{unset,true,false} x UPDATE_SNAPS{unset,true,clean,other} x Sort{off,on} x entry point(5) x entry state{missing,equal,different} x obsolete{absent,present} = 1440 cells, swept for three value families (plain, blank stored value, hostile lines); 16 real child processes per sweep (environment variables CI / UPDATE_SNAPS set for real, Clean option) each running 90 cells in separate absolute directories plus 15 cells whose snapshot directory does not exist yet (a rejected call must leave no directory behind) and 9 cells whose multi-entry file exists with 0 bytes, then Clean; oracle: literal mode table for the call outcome and for the per-path directory delta of the Match phase and of the Clean phase (backdated mtimes: untouched means not written), Clean summary verbs and lists; non-trivial = every cell (each is a distinct configuration); the table is swept completely on every run; CI processes of odd rounds run as an unprivileged user on a read-only tree (files 0444, directories 0555); thorough repeats it for several value/name seeds and adds an strace witness on CI cells"
	c.P.Assumptions = []string{"children run with a minimal environment plus one of eleven CI-on variable sets (CI=true|1|empty, GITHUB_ACTIONS, GITLAB_CI, CIRCLECI, BUILD_NUMBER, RUN_ID, CONTINUOUS_INTEGRATION) or, for CI off, nothing or CI=false (alone, or overriding a vendor variable) - the detection rule is ciinfo's", "strace (thorough) is a second witness only; the digest decides"}
	p, done := workerProgram(c, "")
	defer done()
	if p == nil {
		return
	}
	type proc struct {
		CI   bool
		Upd  string
		Sort bool
	}
	var procs []proc
	for _, ci := range []bool{false, true} {
		for _, u := range []string{"", "true", "clean", "yes-please"} {
			for _, s := range []bool{false, true} {
				procs = append(procs, proc{ci, u, s})
			}
		}
	}
	rounds := 3
	if c.Thorough() {
		rounds = 21
	}
	total := len(procs) * rounds
	for i := 0; i < total; i++ {
		if !c.Mine(i) {
			continue
		}
		pr := procs[i%len(procs)]
		round := i / len(procs)
		if pr.Upd == "yes-please" {
			// "any other string": near-misses of the two recognised values included
			pr.Upd = []string{"yes-please", "TRUE", "True", " true", "true ", "1", "false", "CLEAN", "clean ", "truee", "cleanup", "t"}[(round+int(c.P.Seed))%12]
			c.Count("processes_with_other_UPDATE_SNAPS:"+fmt.Sprintf("%q", pr.Upd), 1)
		}
		c.Guard(pr, func() { runC05Proc(c, p, i, round, pr.CI, pr.Upd, pr.Sort) })
	}
	if c.P.Exhaustive == nil {
		c.P.Exhaustive = map[string]bool{}
	}
	c.P.Exhaustive["mode_table_1440_cells"] = c.OnlyCase < 0
}

func runC05Proc(c *vkit.Ctx, p *Program, caseIdx, round int, ci bool, updVar string, sortOpt bool) {
	valueRound = round
	cellsRoot := vkit.MkScratch("c05cells")
	defer os.RemoveAll(cellsRoot)
	mode := vkit.Mode{CI: ci, UpdateVar: updVar}
	top := []string{"TestA", "TestAB", "TestA1", "TestA10"}[round%4]
	scn := &Scenario{Roots: []string{cellsRoot}, Nodes: map[string]*Node{}, CleanSort: sortOpt, CleanOpts: true}
	// the CleanOpts value is passed once, twice or three times (the parameter is variadic; the
	// same value every time, so what is asked for is not in doubt)
	scn.CleanOptsN = 1 + (caseIdx+round)%3
	c.Count(fmt.Sprintf("processes_passing_%d_CleanOpts_values", scn.CleanOptsN), 1)
	if d, s := vkit.CleanPerm(mode, sortOpt); !d && !s && (caseIdx+round)%2 == 0 {
		// Clean may neither delete nor sort in this process: TestMain also calls it BEFORE the
		// tests run; it must leave everything alone and must not change what follows
		scn.CleanBefore = true
		c.Count("processes_calling_Clean_before_the_tests_run", 1)
	}
	topNode := &Node{}
	scn.Nodes[top] = topNode
	var cells []cell
	stale := map[string][]string{} // cell name -> stale files
	staleID := map[string][]string{}
	n := 0
	for upd := 0; upd < 3; upd++ {
		for _, api := range apis5 {
			for _, st := range []string{"missing", "equal", "different"} {
				for _, ob := range []bool{false, true} {
					name := fmt.Sprintf("c%03d", n)
					n++
					cl := cell{Name: name, Upd: upd, API: api, State: st, Obsolete: ob, Dir: filepath.Join(cellsRoot, name)}
					test := top + "/" + name
					sf, si := seedCell(cl, test)
					stale[name], staleID[name] = sf, si
					in, _ := liveVal(api, "live")
					node := &Node{Calls: []Call{{API: api, Val: in, Dir: cl.Dir, File: "cell", Update: updPtr(upd)}}}
					if !multiFile(api) {
						node.Calls[0].File = ""
					} else {
						// second call: its entry exists and is equal
						node.Calls = append(node.Calls, Call{API: api, Val: in, Dir: cl.Dir, File: "cell", Update: updPtr(upd)})
					}
					scn.Nodes[test] = node
					topNode.Subs = append(topNode.Subs, name)
					cells = append(cells, cl)
				}
			}
		}
	}
	// fifteen more cells whose snapshot directory does not exist yet: a forbidden call
	// must not leave a directory behind either
	for upd := 0; upd < 3; upd++ {
		for _, api := range apis5 {
			name := fmt.Sprintf("c%03d", n)
			n++
			cl := cell{Name: name, Upd: upd, API: api, State: "missing", Dir: filepath.Join(cellsRoot, name, "not", "there-yet"), FreshDir: true}
			test := top + "/" + name
			in, _ := liveVal(api, "live")
			node := &Node{Calls: []Call{{API: api, Val: in, Dir: cl.Dir, File: "cell", Update: updPtr(upd)}}}
			if !multiFile(api) {
				node.Calls[0].File = ""
			}
			scn.Nodes[test] = node
			topNode.Subs = append(topNode.Subs, name)
			cells = append(cells, cl)
		}
	}
	// nine more cells whose multi-entry file exists but is empty (0 bytes: what is left when
	// the last entry of a file was removed by hand, or by an interrupted rewrite): the entry
	// is missing, the file is in use, and nobody may remove or write it without permission
	for upd := 0; upd < 3; upd++ {
		for _, api := range []string{"snap", "json", "yaml"} {
			name := fmt.Sprintf("c%03d", n)
			n++
			cl := cell{Name: name, Upd: upd, API: api, State: "missing", Dir: filepath.Join(cellsRoot, name), EmptyFile: true}
			test := top + "/" + name
			os.MkdirAll(cl.Dir, 0o755)
			os.WriteFile(filepath.Join(cl.Dir, "cell.snap"), nil, 0o644)
			in, _ := liveVal(api, "live")
			scn.Nodes[test] = &Node{Calls: []Call{{API: api, Val: in, Dir: cl.Dir, File: "cell", Update: updPtr(upd)}}}
			topNode.Subs = append(topNode.Subs, name)
			cells = append(cells, cl)
		}
	}
	// what every cell directory holds before the run
	before := map[string][]vkit.SnapEntry{}
	for _, cl := range cells {
		if multiFile(cl.API) {
			before[cl.Name], _ = vkit.ReadSnapFile(filepath.Join(cl.Dir, "cell.snap"))
		}
	}
	opt := RunOpt{PkgDir: "", Scenario: scn, CI: ci, Update: updVar}
	if ci && round%2 == 1 && os.Getenv("VERIF_NO_NOBODY") == "" {
		// a CI run on a read-only checkout, as an ordinary user: nothing may be written on CI,
		// so nothing can depend on write permission either
		opt.AsNobody = true
		c.Count("ci_processes_as_unprivileged_user_on_a_read_only_tree", 1)
	}
	var straceLog string
	if c.Thorough() && ci && !opt.AsNobody {
		// (the unprivileged processes are not traced: strace would run unprivileged too and
		// could not write its log next to the root-owned scratch tree)
		straceLog = filepath.Join(cellsRoot, "..", fmt.Sprintf("strace-%d.log", caseIdx))
		opt.Strace = straceLog
		defer os.Remove(straceLog)
	}
	res := p.RunChild(opt)
	procDesc := fmt.Sprintf("process CI=%v %v UPDATE_SNAPS=%q sort=%v", ci, res.CIEnv, updVar, sortOpt)
	c.Count(fmt.Sprintf("processes_with_ci_environment:%v", res.CIEnv), 1)
	if !res.Complete {
		c.Inconclusive(procDesc + ": child did not complete: " + fmt.Sprint(res.Err) + " " + res.Stderr)
		return
	}
	a := Analyze(res, p.pkgSrcDir(""))
	byTest := map[string][]*CallRec{}
	for _, cr := range a.Calls {
		byTest[cr.Test] = append(byTest[cr.Test], cr)
	}
	ini, pre, post := res.Initial[cellsRoot], res.Pre[cellsRoot], res.Post[cellsRoot]
	deletes, sorts := vkit.CleanPerm(mode, sortOpt)
	var expFiles, expTests []string
	for _, cl := range cells {
		test := top + "/" + cl.Name
		in := map[string]any{"process": procDesc, "cell": cl}
		crs := byTest[test]
		c.Count("cells", 1)
		if len(crs) == 0 {
			c.Violate("cell-not-executed", "", procDesc+" cell "+cl.Name, in)
			continue
		}
		mayCreate, mayUpdate := vkit.Perm(mode, updPtr(cl.Upd))
		var exp string
		switch cl.State {
		case "missing":
			exp = vkit.Failed
			if mayCreate {
				exp = vkit.Added
			}
		case "equal":
			exp = vkit.Passed
		default:
			exp = vkit.Failed
			if mayUpdate {
				exp = vkit.Updated
			}
		}
		got := crs[0].Outcome
		c.Count("match_outcome_"+got, 1)
		if got != exp {
			c.Violate("mode-table-outcome", "", fmt.Sprintf("%s cell %+v: expected %s, got %s (%s)", procDesc, cl, exp, got, vkit.Clip(strings.Join(crs[0].Signals.Errors, "|"), 200)), in)
			continue
		}
		if len(crs) > 1 && crs[1].Outcome != vkit.Passed {
			c.Violate("mode-table-outcome", "", fmt.Sprintf("%s cell %+v: second (equal) call got %s", procDesc, cl, crs[1].Outcome), in)
			continue
		}
		if cl.EmptyFile {
			c.Count("cells_whose_file_exists_but_is_empty", 1)
		}
		if cl.FreshDir {
			c.Count("fresh_directory_cells", 1)
			if !mayCreate {
				var left []string
				for pth := range post {
					if pth == cl.Name || strings.HasPrefix(pth, cl.Name+"/") {
						left = append(left, pth)
					}
				}
				for pth := range pre {
					if (pth == cl.Name || strings.HasPrefix(pth, cl.Name+"/")) && post[pth].Type == "" {
						left = append(left, pth)
					}
				}
				if len(left) > 0 {
					sort.Strings(left)
					c.Violate("forbidden-call-created-directory", "", fmt.Sprintf("%s cell %+v: the call was rejected but left %v behind", procDesc, cl, left), in)
					continue
				}
			}
		}
		// Match phase: which paths of the cell directory were written
		rel := func(pth string) string { r, _ := filepath.Rel(cellsRoot, pth); return r }
		target := crs[0].Path
		mutating := exp == vkit.Added || exp == vkit.Updated
		bad := false
		for pth := range union(ini, pre) {
			if !strings.HasPrefix(pth, cl.Name+"/") {
				continue
			}
			w := vkit.Written(ini, pre, pth)
			if pth == rel(target) {
				if w != mutating {
					c.Violate("match-phase-write", "", fmt.Sprintf("%s cell %+v: outcome %s but target %s written=%v", procDesc, cl, exp, pth, w), in)
					bad = true
				}
			} else if w {
				c.Violate("match-phase-foreign-write", "", fmt.Sprintf("%s cell %+v: %s changed during the Match phase", procDesc, cl, pth), in)
				bad = true
			}
		}
		if bad {
			continue
		}
		// model of the cell file after the Match phase
		var wantEnts []vkit.SnapEntry
		if multiFile(cl.API) {
			_, live := liveVal(cl.API, "live")
			wantEnts = append(wantEnts, before[cl.Name]...)
			switch exp {
			case vkit.Added:
				wantEnts = append(wantEnts, vkit.SnapEntry{ID: test + " - 1", Body: live})
			case vkit.Updated:
				for i := range wantEnts {
					if wantEnts[i].ID == test+" - 1" {
						wantEnts[i].Body = live
					}
				}
			}
		}
		// Clean phase
		for _, sf := range stale[cl.Name] {
			expFiles = append(expFiles, sf)
			_, still := post[rel(sf)]
			if deletes && still {
				c.Violate("clean-did-not-delete-stale-file", "", fmt.Sprintf("%s cell %+v: %s still present", procDesc, cl, rel(sf)), in)
			}
			if !deletes && (!still || vkit.Written(pre, post, rel(sf))) {
				c.Violate("clean-touched-file-without-permission", "", fmt.Sprintf("%s cell %+v: %s removed or written", procDesc, cl, rel(sf)), in)
			}
		}
		if multiFile(cl.API) {
			expTests = append(expTests, staleID[cl.Name]...)
			got, torn := vkit.ReadSnapFile(target)
			if len(torn) > 0 {
				c.Violate("file-torn-after-clean", "", strings.Join(torn, ";"), in)
				continue
			}
			want := append([]vkit.SnapEntry(nil), wantEnts...)
			if deletes {
				var kept []vkit.SnapEntry
				for _, e := range want {
					if e.ID != "TestZStale - 1" {
						kept = append(kept, e)
					}
				}
				want = kept
			}
			if sorts {
				sort.SliceStable(want, func(i, j int) bool { return natural.Less(want[i].ID, want[j].ID) })
			}
			if fmt.Sprint(got) != fmt.Sprint(want) {
				class := ""
				if sorts && !deletes && cl.Obsolete && len(got) == len(want)-1 {
					class = "sort-without-clean-drops-stale-entries"
				}
				c.Violate("clean-phase-file-content", class, fmt.Sprintf("%s cell %+v: file holds %v, mode table allows %v", procDesc, cl, entryIDs(got), entryIDs(want)), in)
				continue
			}
			needWrite := (deletes && cl.Obsolete) || (sorts && !naturalSorted(entryIDs(wantEnts)))
			if w := vkit.Written(pre, post, rel(target)); w != needWrite {
				c.Violate("clean-phase-write", "", fmt.Sprintf("%s cell %+v: file written=%v, expected %v", procDesc, cl, w, needWrite), in)
				continue
			}
		} else if vkit.Written(pre, post, rel(target)) {
			c.Violate("clean-touched-live-standalone", "", fmt.Sprintf("%s cell %+v", procDesc, cl), in)
			continue
		}
		c.Case(vkit.Hash(ci, updVar, sortOpt, cl.Upd, cl.API, cl.State, cl.Obsolete, cl.FreshDir, cl.EmptyFile, round), true)
		if cl.Name == "c007" {
			c.Sample(map[string]any{"process": procDesc, "cell": cl, "outcome": got, "clean_deletes": deletes, "clean_sorts": sorts})
		}
	}
	// summary
	sort.Strings(expFiles)
	sort.Strings(expTests)
	s := res.Summary
	if s == nil || !s.Present {
		class := ""
		if opt.AsNobody {
			class = "clean-needs-write-permission-to-report"
		}
		c.Violate("no-summary", class, procDesc, nil)
		return
	}
	verb := "obsolete"
	if deletes {
		verb = "removed"
	}
	if fmt.Sprint(s.Files) != fmt.Sprint(expFiles) || fmt.Sprint(s.Tests) != fmt.Sprint(expTests) {
		c.Violate("summary-lists", "", fmt.Sprintf("%s: summary lists %d files / %d tests, stale items are %d / %d", procDesc, len(s.Files), len(s.Tests), len(expFiles), len(expTests)), map[string]any{"process": procDesc})
	} else if (len(expFiles) > 0 && s.FilesVerb != verb) || (len(expTests) > 0 && s.TestsVerb != verb) {
		c.Violate("summary-wording", "", fmt.Sprintf("%s: verbs %q/%q, expected %q", procDesc, s.FilesVerb, s.TestsVerb, verb), map[string]any{"process": procDesc})
	}
	if ci {
		// on CI nothing at all may change, in either phase
		if d := ini.Diff(post, false); len(d) > 0 {
			c.Violate("ci-run-changed-directory", "", fmt.Sprintf("%s: %v", procDesc, d), map[string]any{"process": procDesc})
		}
		c.Count("ci_whole_tree_digest_checks", 1)
		if straceLog != "" {
			checkStraceReadOnly(c, straceLog, cellsRoot, procDesc)
		}
	}
	c.Count("processes", 1)
}

func union(a, b vkit.Digest) map[string]bool {
	u := map[string]bool{}
	for k, e := range a {
		if e.Type == "f" {
			u[k] = true
		}
	}
	for k, e := range b {
		if e.Type == "f" {
			u[k] = true
		}
	}
	return u
}

// checkStraceReadOnly: second, source-independent witness for "creates, modifies
// or deletes nothing": no mutating syscall may name a path under root.
func checkStraceReadOnly(c *vkit.Ctx, log, root, desc string) {
	b, err := os.ReadFile(log)
	if err != nil {
		c.Count("strace_missing", 1)
		return
	}
	n := 0
	for _, l := range strings.Split(string(b), "\n") {
		if !strings.Contains(l, root) {
			continue
		}
		n++
		mut := false
		switch {
		case strings.Contains(l, "unlink"), strings.Contains(l, "rename"), strings.Contains(l, "truncate("), strings.Contains(l, "rmdir("), strings.Contains(l, "mkdir"):
			mut = !strings.Contains(l, "= -1 ")
		case strings.Contains(l, "openat("):
			mut = (strings.Contains(l, "O_WRONLY") || strings.Contains(l, "O_RDWR") || strings.Contains(l, "O_CREAT") || strings.Contains(l, "O_TRUNC")) && !strings.Contains(l, "= -1 ") && !strings.Contains(l, "events.jsonl")
		}
		if mut && strings.Contains(l, "O_RDWR") && !strings.Contains(l, "O_CREAT") && !strings.Contains(l, "O_TRUNC") {
			// opening read-write without writing is visible only through ftruncate/write; the digest decides
			c.Count("strace_rdwr_opens_on_ci", 1)
			mut = false
		}
		if mut {
			c.Violate("ci-mutating-syscall", "", fmt.Sprintf("%s: %s", desc, vkit.Clip(l, 300)), map[string]any{"process": desc})
			return
		}
	}
	c.Count("strace_lines_on_roots", n)
}
