package engb

import (
	"fmt"
	"math/rand/v2"
	"os"
	"path/filepath"
	"regexp"
	"sort"
	"strings"

	"verifharness/vkit"
)

func init() { register("C08", checkC08) }

func defaultNamed(path string) bool {
	b := filepath.Base(path)
	return strings.HasSuffix(b, "_test.snap")
}

// runMatchesFunctionOfSourceFile is the predicate of one known finding: the file
// is named after a test source file and the -run pattern, applied as one regexp to
// top-level function names (which is what the library does), matches a function of
// that source file - so the library concludes "this file's tests ran".
func runMatchesFunctionOfSourceFile(lab *Lab, snapPath, run string) bool {
	src := strings.TrimSuffix(filepath.Base(snapPath), ".snap") + ".go"
	re, err := regexp.Compile(run)
	if err != nil {
		return false
	}
	for _, pk := range lab.P.Shape.Pkgs {
		if pk.Dir != lab.PkgDir {
			continue
		}
		for _, f := range pk.Files {
			if f.Name != src {
				continue
			}
			for _, fn := range append(append([]string{}, f.Tests...), f.Fuzz...) {
				if re.MatchString(fn) {
					return true
				}
			}
		}
	}
	return false
}

func checkC08(c *vkit.Ctx) {
	c.P.Rule = "case = generated program recorded once in full (ownership map slot->test, file->tests from the event log), then stale decoys planted, then the judged process with a random subset of tests calling snaps.Skip/Skipf/SkipNow (at the start or after some calls; plain t.Skip as control), an optional -run pattern (names, anchors, alternations, multi-level, digits, classes), -count, every Clean mode; what ran is read from the real runner (enter events); oracle: every entry / standalone file / solely-owned file of a test that did not run because it or an ancestor called a snaps skip wrapper, or because -run did not select it, is still present with the same body after Clean and is in neither obsolete list; converse: with TestA skipped and no -run, a planted entry of the non-existent sibling TestAZ in an addressed file must be listed; non-trivial = >=1 protected item exists in a directory Clean visits; distinct by hash(scenario, skips, flags)"
	c.P.Assumptions = []string{"the real runner is the oracle for which tests -run selects", "ownership is what the full recording run addressed"}
	p, done := workerProgram(c, "")
	defer done()
	if p == nil {
		return
	}
	lab := NewLab(p, "")
	n := c.N(2000, 100000)
	for i := 0; i < n; i++ {
		if !c.Mine(i) {
			continue
		}
		r := c.Rand("case", i)
		c.Guard(i, func() { runC08(c, lab, r, i) })
	}
	lab.Wipe()
}

func runC08(c *vkit.Ctx, lab *Lab, r *rand.Rand, i int) {
	lab.Wipe()
	lc := lab.Gen(r, LabOpts{Skips: true, RunFilter: true, Counts: true, Parallel: true, Fuzz: true, Bench: true})
	rec, ok := lab.record(c, lc)
	if !ok {
		c.Count("premise_record_failed", 1)
		return
	}
	own := BuildOwned(rec)
	sd := lab.Seed(r, own, LabOpts{Stale: true})
	// a skipped test that takes very many snapshots: entries of it with five-digit (and
	// one- to four-digit) ordinals the recording never reached are planted in a file that
	// other tests keep in use; a test that called snaps.Skip keeps ALL its entries
	type planted struct{ path, id string }
	var bigOrd []planted
	if lc.Run == "" {
		tests := make([]string, 0, len(lc.SkipNodes))
		for t := range lc.SkipNodes {
			tests = append(tests, t)
		}
		sort.Strings(tests)
		for _, t := range tests {
			if lc.SkipNodes[t] == "plain" || lc.SkipExec[t] != 0 || lc.SkipAt[t] != 0 || lc.SkipAfter[t] {
				continue
			}
			for f, owners := range own.FileOwn {
				if !owners[t] || len(owners) < 2 {
					continue
				}
				others := false
				for o := range owners {
					if o != t && lc.SkipNodes[o] == "" && !strings.HasPrefix(o, t+"/") && !strings.HasPrefix(t, o+"/") {
						others = true
					}
				}
				ents, torn := vkit.ReadSnapFile(f)
				if !others || len(torn) > 0 {
					continue
				}
				for _, n := range []int{9999, 10000, 12345, 100000} {
					id := vkit.SlotID(t, n)
					ents = append(ents, vkit.SnapEntry{ID: id, Body: "one of very many snapshots of a skipped test"})
					bigOrd = append(bigOrd, planted{f, id})
				}
				os.WriteFile(f, []byte(vkit.RenderSnapFile(ents)), 0o644)
				break
			}
			if len(bigOrd) > 0 {
				break
			}
		}
	}
	res := lab.P.RunChild(RunOpt{PkgDir: lab.PkgDir, Scenario: lc.withSkips(), Run: lc.Run, Count: lc.Count, Extra: lc.RunnerFlags(), Update: lc.Update})
	in := labSample(lc)
	if !res.Complete {
		c.Violate("clean-did-not-complete", "", fmt.Sprintf("child died: %v %s", res.Err, res.Stderr), in)
		return
	}
	a := Analyze(res, lab.Src)
	prot := ComputeProtection(rec, a, lc)
	c.Count("processes", 2)
	// what the judged run addressed
	addrEntry := map[[2]string]bool{}
	addrFile := map[string]bool{}
	visited := map[string]bool{}
	for _, cr := range a.Calls {
		addrFile[cr.Path] = true
		visited[filepath.Dir(cr.Path)] = true
		if !cr.Call.Standalone() {
			addrEntry[[2]string{cr.Path, vkit.SlotID(cr.Test, cr.K)}] = true
		}
	}
	sum := res.Summary
	if sum == nil {
		sum = &Summary{}
	}
	allowed := lab.AllowedListings(res, a)
	// ids of protected entries are not "allowed" mentions: subtract them below per id
	protectedItems := 0
	tests := make([]string, 0, len(prot.Reason))
	for t := range prot.Reason {
		tests = append(tests, t)
	}
	sort.Strings(tests)
	for _, t := range tests {
		reason := prot.Reason[t]
		for _, cr := range own.Calls[t] {
			if !visited[filepath.Dir(cr.Path)] {
				continue // Clean never looks into that directory in this process: nothing to refute
			}
			if cr.Call.Standalone() {
				if addrFile[cr.Path] {
					continue
				}
				protectedItems++
				listed := inList(sum.Files, cr.Path)
				gone := lab.existsPre(res, cr.Path) && !lab.existsPost(res, cr.Path)
				if listed || gone {
					class := ""
					switch {
					case lc.Run == "" && reason == "skip":
						class = "file-of-skipped-test-without-run-filter"
					case lc.Run != "":
						class = "file-not-default-named-under-run-filter"
					}
					c.Violate("protected-standalone-file-discarded", class, fmt.Sprintf("%s belongs to %s which did not run (%s, -run=%q); listed=%v removed=%v", cr.Path, t, reason, lc.Run, listed, gone), in)
					if class == "" {
						return
					}
				}
				continue
			}
			id := vkit.SlotID(cr.Test, cr.K)
			if addrEntry[[2]string{cr.Path, id}] {
				continue
			}
			if addrFile[cr.Path] {
				// entry-level protection inside a file Clean examines
				protectedItems++
				pre, _ := lab.preEntries(res, cr.Path)
				post, _ := vkit.ReadSnapFile(cr.Path)
				pi, qi := vkit.FindEntries(pre, id), vkit.FindEntries(post, id)
				// the id may also be stale (unprotected) in other files: only mentions beyond those are about this entry
				protectedSame := 0
				for k, t2 := range own.Entry {
					if k[1] == id && prot.Reason[t2] != "" && addrFile[k[0]] && !addrEntry[k] {
						protectedSame++
					}
				}
				listed := countOf(sum.Tests, id) > allowed[id]-protectedSame
				changed := len(pi) == 1 && (len(qi) != 1 || pre[pi[0]].Body != post[qi[0]].Body)
				if listed || changed {
					class := ""
					if reason == "run-filter" && goSnapsRunEmulation(lc.Run, id) {
						class = "run-emulation-matches-entry-of-unselected-test"
					}
					c.Violate("protected-entry-discarded", class, fmt.Sprintf("[%s] in %s belongs to %s which did not run (%s, -run=%q); listed=%v removed-or-altered=%v", id, filepath.Base(cr.Path), t, reason, lc.Run, listed, changed), in)
					if class == "" {
						return
					}
				}
				continue
			}
			// the whole file was not addressed: protected when every owner is protected
			all := true
			for o := range own.FileOwn[cr.Path] {
				if prot.Reason[o] == "" {
					all = false
				}
			}
			if !all {
				continue
			}
			protectedItems++
			listed := inList(sum.Files, cr.Path)
			gone := lab.existsPre(res, cr.Path) && !lab.existsPost(res, cr.Path)
			if listed || gone {
				class := ""
				switch {
				case lc.Run == "" && reason == "skip":
					class = "file-of-skipped-test-without-run-filter"
				case lc.Run != "" && !defaultNamed(cr.Path):
					class = "file-not-default-named-under-run-filter"
				case lc.Run != "" && runMatchesFunctionOfSourceFile(lab, cr.Path, lc.Run):
					class = "default-named-file-run-pattern-matches-another-function-of-its-source-file"
				}
				c.Violate("protected-file-discarded", class, fmt.Sprintf("%s is owned only by tests that did not run (%s: %s, -run=%q); listed=%v removed=%v", cr.Path, t, reason, lc.Run, listed, gone), in)
				if class == "" {
					return
				}
			}
		}
	}
	for _, pl := range bigOrd {
		t := strings.SplitN(pl.id, " - ", 2)[0]
		if a.Skipped[t] == 0 || !addrFile[pl.path] {
			continue // the skip did not happen (an ancestor skipped first) or the file was not examined
		}
		post, _ := vkit.ReadSnapFile(pl.path)
		if inList(sum.Tests, pl.id) || len(vkit.FindEntries(post, pl.id)) != 1 {
			c.Violate("protected-entry-discarded", "", fmt.Sprintf("[%s] in %s belongs to %s, which called snaps.%s; listed=%v present-after=%v", pl.id, filepath.Base(pl.path), t, lc.SkipNodes[t], inList(sum.Tests, pl.id), len(vkit.FindEntries(post, pl.id))), in)
			return
		}
		c.Count("high_ordinal_entries_of_skipped_tests_checked", 1)
	}
	// converse clause: a skip must not protect siblings that merely share a name prefix
	if lc.Run == "" {
		skippedA := false
		for t, w := range lc.SkipNodes {
			if t == "TestA" && w != "plain" && a.Skipped[t] > 0 {
				skippedA = true
			}
		}
		if skippedA {
			for k := range sd.StaleEntries {
				if strings.HasPrefix(k[1], "TestAZ - ") && addrFile[k[0]] {
					c.Count("converse_checks", 1)
					if !inList(sum.Tests, k[1]) {
						c.Violate("skip-over-protects-sibling", "", fmt.Sprintf("TestA is skipped; stale [%s] in %s is not reported", k[1], k[0]), in)
						return
					}
				}
			}
		}
	}
	c.Count("protected_items", protectedItems)
	for k := range lc.Classes {
		c.Count("class:"+k, 1)
	}
	reasons := map[string]bool{}
	for _, v := range prot.Reason {
		reasons[v] = true
	}
	for v := range reasons {
		c.Count("cases_with_reason:"+v, 1)
	}
	c.Case(vkit.Hash(fmt.Sprint(in)), protectedItems > 0)
	if protectedItems > 0 && i%37 == 0 {
		in["protected_tests"] = prot.Reason
		c.Sample(in)
	}
}
