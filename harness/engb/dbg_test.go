package engb
import ("testing";"fmt";"os";"verifharness/vkit")
func TestDbg(t *testing.T) {
	os.Setenv("VERIF_PROP","C07"); os.Setenv("VERIF_SEED","1")
	c := vkit.NewCtxFromEnv("B")
	p, done := workerProgram(c, "")
	defer done()
	lab := NewLab(p, "")
	i := 155
	r := c.Rand("case", i)
	lab.Wipe()
	lc := lab.Gen(r, LabOpts{RunFilter: true, Counts: true, Stale: true, Shuffle: true, Hostile: true, Fuzz: true, Parallel: true})
	rec, ok := lab.record(c, lc)
	fmt.Println(ok)
	own := BuildOwned(rec)
	lab.Seed(r, own, LabOpts{Stale: true, Shuffle: true, Hostile: true})
	res := lab.P.RunChild(RunOpt{PkgDir: lab.PkgDir, Scenario: lc.Scenario, Run: lc.Run, Count: lc.Count, Update: lc.Update})
	a := Analyze(res, lab.Src)
	for _, cr := range a.Calls { if cr.Call.Standalone() { fmt.Println(cr.Test, cr.Exec, cr.Idx, cr.K, cr.Call.API, cr.Outcome, cr.Path) } }
	fmt.Println(res.CleanOut)
	fmt.Println(a.Entered)
}
