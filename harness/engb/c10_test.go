package engb

import (
	"fmt"
	"math/rand/v2"
	"os"
	"path/filepath"
	"sort"
	"strings"

	"github.com/maruel/natural"

	"verifharness/vkit"
)

func init() { register("C10", checkC10) }

// snapshotTree / restoreTree save and restore the lab's roots in memory.
func (l *Lab) snapshotTree() map[string]string {
	m := map[string]string{}
	for _, r := range l.Roots {
		filepath.Walk(r, func(p string, fi os.FileInfo, err error) error {
			if err == nil && fi.Mode().IsRegular() {
				b, _ := os.ReadFile(p)
				m[p] = string(b)
			}
			return nil
		})
	}
	return m
}

func (l *Lab) restoreTree(m map[string]string) {
	l.Wipe()
	for p, c := range m {
		os.MkdirAll(filepath.Dir(p), 0o755)
		os.WriteFile(p, []byte(c), 0o644)
	}
}

func totalOrder(ids []string) bool {
	for i := range ids {
		for j := i + 1; j < len(ids); j++ {
			if natural.Less(ids[i], ids[j]) == natural.Less(ids[j], ids[i]) {
				return false
			}
		}
	}
	return true
}

func checkC10(c *vkit.Ctx) {
	c.P.Rule = "case = generated program recorded once (bodies with blank lines, terminator-like and header-like lines, empty bodies; ids with numeric widths Test2/Test10, nested `/`, fuzz seed ids), stale entries planted, then TWO variants of the same directory that differ only in a random permutation of every file's entries; each variant: judged process (all live ids addressed) with Clean in a random mode (Sort on/off, UPDATE_SNAPS unset/clean/true/other), then the same process again; oracle: across the Clean rewrite every surviving entry keeps its raw body, none is dropped or duplicated; with Sort the ids are in natural order (maruel/natural as comparator, judged when the order is total) and both variants end byte-identical; a file needing neither pruning nor sorting keeps its backdated mtime; the second Clean writes nothing; every 8th case adds a table test with 80-120 snapshot files of its own and runs the judged processes under a 64-descriptor limit (prlimit): Clean works through files one at a time, so the limit must not change anything; one case in eight runs Clean as an unprivileged user with one read-only file; non-trivial = some file has >=3 entries and is unsorted or holds a stale entry; distinct by hash(scenario, planted, permutations, mode)"
	c.P.Assumptions = []string{"maruel/natural.Less is the natural-order comparator (trusted base)"}
	p, done := workerProgram(c, "")
	defer done()
	if p == nil {
		return
	}
	lab := NewLab(p, "")
	n := c.N(1000, 60000)
	for i := 0; i < n; i++ {
		if !c.Mine(i) {
			continue
		}
		r := c.Rand("case", i)
		c.Guard(i, func() { runC10(c, lab, r, i) })
	}
	lab.Wipe()
}

// c10ReadOnly: Clean run by an ordinary user; one snapshot file that needs a rewrite is
// read-only. Whatever Clean does about that file (stop, skip it), no file may lose,
// duplicate or alter a surviving entry, and a file that needs neither pruning nor sorting
// is not written. Returns false when the case has no file that needs a rewrite.
func c10ReadOnly(c *vkit.Ctx, lab *Lab, lc *LabCase, own *Owned, r *rand.Rand, in map[string]any, deletes, sorts bool) bool {
	pr := c.Rand("ro-perm", int(vkit.Hash(fmt.Sprint(in))%1000000))
	var files []string
	for f := range own.FileOwn {
		files = append(files, f)
	}
	sort.Strings(files)
	for _, f := range files {
		ents, torn := vkit.ReadSnapFile(f)
		if len(torn) > 0 || len(ents) < 2 {
			continue
		}
		pr.Shuffle(len(ents), func(a, b int) { ents[a], ents[b] = ents[b], ents[a] })
		os.WriteFile(f, []byte(vkit.RenderSnapFile(ents)), 0o644)
	}
	if !sorts && !deletes {
		return false
	}
	// the read-only one: the first file (in name order) - Clean examines files in that order
	if len(files) < 2 {
		return false
	}
	ro := files[0]
	res := lab.P.RunChild(RunOpt{PkgDir: lab.PkgDir, Scenario: lc.Scenario, Update: lc.Update, AsNobody: true, Writable: true, ReadOnly: []string{ro}})
	if !res.Complete {
		c.Count("read_only_variant_child_incomplete", 1)
		return false
	}
	a := Analyze(res, lab.Src)
	for _, cr := range a.Calls {
		if cr.Outcome != vkit.Passed {
			c.Count("read_only_variant_premise_failed", 1)
			return false
		}
	}
	addr := map[[2]string]bool{}
	multi := map[string]bool{}
	for _, cr := range a.Calls {
		if !cr.Call.Standalone() {
			addr[[2]string{cr.Path, vkit.SlotID(cr.Test, cr.K)}] = true
			multi[cr.Path] = true
		}
	}
	key := func(es []vkit.SnapEntry) string {
		out := make([]string, len(es))
		for i, e := range es {
			out[i] = e.ID + "\x00" + e.Body
		}
		sort.Strings(out)
		return fmt.Sprint(out)
	}
	for f := range multi {
		pre, tp := lab.preEntries(res, f)
		post, torn := vkit.ReadSnapFile(f)
		if len(tp) > 0 {
			continue
		}
		if len(torn) > 0 {
			c.Violate("file-torn-after-clean", "", strings.Join(torn, "; "), in)
			return true
		}
		var want []vkit.SnapEntry
		hasStale := false
		for _, e := range pre {
			if !addr[[2]string{f, e.ID}] {
				hasStale = true
				if deletes {
					continue
				}
			}
			want = append(want, e)
		}
		if k := key(post); k != key(pre) && k != key(want) {
			c.Violate("rewrite-changed-surviving-entries", "", fmt.Sprintf("Clean by an unprivileged user, %s read-only: %s (UPDATE_SNAPS=%q sort=%v) before %v, after %v, survivors would be %v", filepath.Base(ro), filepath.Base(f), lc.Update, lc.Sort, entryIDs(pre), entryIDs(post), entryIDs(want)), in)
			return true
		}
		needWrite := (deletes && hasStale) || (sorts && !naturalSorted(entryIDs(pre)))
		if !needWrite && lab.written(res, f) {
			c.Violate("write-decision", "", fmt.Sprintf("Clean by an unprivileged user, %s read-only: %s needed neither pruning nor sorting but was written", filepath.Base(ro), filepath.Base(f)), in)
			return true
		}
	}
	c.Count("clean_runs_by_unprivileged_user_with_a_read_only_file", 1)
	return true
}

func runC10(c *vkit.Ctx, lab *Lab, r *rand.Rand, i int) {
	lab.Wipe()
	lc := lab.Gen(r, LabOpts{Hostile: true, Fuzz: true, Parallel: true})
	lc.Run, lc.Count = "", 1
	lc.Sort = r.IntN(3) != 0
	lc.Scenario.CleanSort = lc.Sort
	noFile := 0
	if i%8 == 5 {
		// a table test with one snapshot file per case: more files than the process may hold
		// open at once (the limit is an everyday one scaled down: 64 descriptors, 80-120 files).
		// Clean works through them one at a time, so the limit must not matter.
		t0 := lc.Tests[0]
		m := 80 + r.IntN(41)
		for k := 0; k < m; k++ {
			lc.Scenario.Nodes[t0].Calls = append(lc.Scenario.Nodes[t0].Calls,
				Call{API: "snap", Dir: lab.AbsDir, File: fmt.Sprintf("case_%03d", k), Val: fmt.Sprintf("table case %d", k)})
		}
		noFile = 64
		lc.Classes["more-snapshot-files-than-the-descriptor-limit"] = true
		c.Count("cases_with_more_files_than_descriptors", 1)
	}
	rec, ok := lab.record(c, lc)
	if !ok {
		c.Count("premise_record_failed", 1)
		return
	}
	own := BuildOwned(rec)
	lab.Seed(r, own, LabOpts{Stale: true, Hostile: true})
	if i%8 == 6 {
		// a used file ALL of whose entries are stale, sorting first in its directory, and
		// the ids it holds are the ones that are live in the files Clean examines next: a
		// test now also calls into "!first.snap" with Update(false) (its entry is missing,
		// the call fails, the file stays in use); the file holds copies of the other files'
		// live ids, which are stale there
		var ents []vkit.SnapEntry
		for k, t := range own.Entry {
			if filepath.Dir(k[0]) == lab.AbsDir && t != "" {
				ents = append(ents, vkit.SnapEntry{ID: k[1], Body: "a stale copy held by another file"})
			}
		}
		if len(ents) > 0 {
			sort.Slice(ents, func(a, b int) bool { return ents[a].ID < ents[b].ID })
			seen := map[string]bool{}
			var uniq []vkit.SnapEntry
			for _, e := range ents {
				if !seen[e.ID] {
					seen[e.ID] = true
					uniq = append(uniq, e)
				}
			}
			os.MkdirAll(lab.AbsDir, 0o755)
			os.WriteFile(filepath.Join(lab.AbsDir, "!first.snap"), []byte(vkit.RenderSnapFile(uniq)), 0o644)
			no := false
			t0 := lc.Tests[0]
			lc.Scenario.Nodes[t0].Calls = append(lc.Scenario.Nodes[t0].Calls, Call{API: "snap", Dir: lab.AbsDir, File: "!first", Update: &no, Val: "never stored"})
			lc.Classes["used-file-holding-only-stale-copies-of-ids-live-elsewhere"] = true
			c.Count("cases_with_a_used_file_of_stale_entries_only", 1)
		}
	}
	base := lab.snapshotTree()
	deletes, sorts := vkit.CleanPerm(vkit.Mode{UpdateVar: lc.Update}, lc.Sort)
	in := labSample(lc)
	if r.IntN(8) == 0 && os.Getenv("VERIF_NO_NOBODY") == "" {
		if c10ReadOnly(c, lab, lc, own, r, in, deletes, sorts) {
			c.Case(vkit.Hash("ro", fmt.Sprint(in)), true)
			return
		}
		lab.restoreTree(base)
	}
	finals := []map[string]string{}
	nontrivial := false
	for variant := 0; variant < 2; variant++ {
		lab.restoreTree(base)
		pr := c.Rand(fmt.Sprintf("perm%d", variant), i)
		for f := range own.FileOwn {
			ents, torn := vkit.ReadSnapFile(f)
			if len(torn) > 0 || len(ents) < 2 {
				continue
			}
			pr.Shuffle(len(ents), func(a, b int) { ents[a], ents[b] = ents[b], ents[a] })
			if pr.IntN(3) == 0 {
				os.WriteFile(f, []byte(vkit.RenderSnapFileLoose(pr, ents)), 0o644)
				c.Count("files_with_blank_line_runs", 1)
			} else {
				os.WriteFile(f, []byte(vkit.RenderSnapFile(ents)), 0o644)
			}
		}
		res := lab.P.RunChild(RunOpt{PkgDir: lab.PkgDir, Scenario: lc.Scenario, Update: lc.Update, NoFile: noFile})
		if !res.Complete {
			c.Violate("clean-did-not-complete", "", fmt.Sprintf("child died: %v %s", res.Err, res.Stderr), in)
			return
		}
		a := Analyze(res, lab.Src)
		addr := map[[2]string]bool{}
		multi := map[string]bool{}
		for _, cr := range a.Calls {
			if !cr.Call.Standalone() {
				addr[[2]string{cr.Path, vkit.SlotID(cr.Test, cr.K)}] = true
				multi[cr.Path] = true
			}
		}
		c.Count("processes", 2)
		for f := range multi {
			pre, tp := lab.preEntries(res, f)
			post, torn := vkit.ReadSnapFile(f)
			if len(tp) > 0 {
				c.Count("premise_pre_file_torn", 1)
				return
			}
			if len(torn) > 0 {
				c.Violate("file-torn-after-clean", "", strings.Join(torn, "; "), in)
				return
			}
			hasStale := false
			var want []vkit.SnapEntry
			for _, e := range pre {
				if !addr[[2]string{f, e.ID}] {
					hasStale = true
					if deletes {
						continue
					}
				}
				want = append(want, e)
			}
			preIDs := entryIDs(pre)
			unsorted := !naturalSorted(preIDs)
			if len(pre) >= 3 && (unsorted || hasStale) {
				nontrivial = true
			}
			// content preservation (as multiset of id+body)
			k := func(es []vkit.SnapEntry) []string {
				out := make([]string, len(es))
				for i, e := range es {
					out[i] = e.ID + "\x00" + e.Body
				}
				sort.Strings(out)
				return out
			}
			if fmt.Sprint(k(post)) != fmt.Sprint(k(want)) {
				c.Violate("rewrite-changed-surviving-entries", "", fmt.Sprintf("%s (UPDATE_SNAPS=%q sort=%v): before %v, after %v, expected survivors %v", filepath.Base(f), lc.Update, lc.Sort, preIDs, entryIDs(post), entryIDs(want)), in)
				return
			}
			for _, e := range want {
				var pb, qb string
				for _, x := range pre {
					if x.ID == e.ID {
						pb = x.Body
					}
				}
				for _, x := range post {
					if x.ID == e.ID {
						qb = x.Body
					}
				}
				if pb != qb {
					c.Violate("rewrite-changed-body", "", fmt.Sprintf("[%s]: %s -> %s", e.ID, vkit.Q(pb), vkit.Q(qb)), in)
					return
				}
			}
			postIDs := entryIDs(post)
			if sorts && totalOrder(postIDs) && !naturalSorted(postIDs) {
				c.Violate("sort-order-not-natural", "", fmt.Sprintf("%s: %v", filepath.Base(f), postIDs), in)
				return
			}
			if !sorts && fmt.Sprint(postIDs) != fmt.Sprint(entryIDs(want)) {
				c.Violate("order-changed-without-sort", "", fmt.Sprintf("%s: %v, expected %v", filepath.Base(f), postIDs, entryIDs(want)), in)
				return
			}
			needWrite := (deletes && hasStale) || (sorts && unsorted)
			if w := lab.written(res, f); w != needWrite {
				c.Violate("write-decision", "", fmt.Sprintf("%s: written=%v but prune-needed=%v sort-needed=%v", filepath.Base(f), w, deletes && hasStale, sorts && unsorted), in)
				return
			}
			c.Count("files_judged", 1)
			if needWrite {
				c.Count("rewrites_judged", 1)
			}
		}
		// second process: Clean again changes nothing
		res2 := lab.P.RunChild(RunOpt{PkgDir: lab.PkgDir, Scenario: lc.Scenario, Update: lc.Update, NoFile: noFile})
		if res2.Complete {
			for root, pre := range res2.Pre {
				if d := pre.Diff(res2.Post[root], false); len(d) > 0 {
					c.Violate("second-clean-not-idempotent", "", fmt.Sprintf("UPDATE_SNAPS=%q sort=%v: %v", lc.Update, lc.Sort, d), in)
					return
				}
			}
			c.Count("idempotence_checks", 1)
		}
		finals = append(finals, lab.snapshotTree())
	}
	if sorts && len(finals) == 2 {
		for p, c1 := range finals[0] {
			if own.FileOwn[p] == nil {
				continue
			}
			ents, _ := vkit.ParseSnapFile(c1)
			if !totalOrder(entryIDs(ents)) {
				continue
			}
			// the entry sequence, not the bytes: a file that needed no rewrite keeps its layout
			if e2, _ := vkit.ParseSnapFile(finals[1][p]); fmt.Sprint(e2) != fmt.Sprint(ents) {
				c.Violate("sort-depends-on-initial-order", "", fmt.Sprintf("%s: two permutations of the same entries end in different entry sequences", filepath.Base(p)), in)
				return
			}
			c.Count("permutation_pairs_compared", 1)
		}
	}
	for k := range lc.Classes {
		c.Count("class:"+k, 1)
	}
	c.Case(vkit.Hash(fmt.Sprint(in), i), nontrivial)
	if i%31 == 0 {
		c.Sample(in)
	}
}
