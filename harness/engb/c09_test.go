package engb

import (
	"fmt"
	"math/rand/v2"
	"path/filepath"
	"sort"
	"strings"

	"verifharness/vkit"
)

func init() { register("C09", checkC09) }

func idTest(id string) string {
	if i := strings.LastIndex(id, " - "); i >= 0 {
		return id[:i]
	}
	return id
}

func multisetOf(xs []string) map[string]int {
	m := map[string]int{}
	for _, x := range xs {
		m[x]++
	}
	return m
}

func checkC09(c *vkit.Ctx) {
	c.P.Rule = "case = generated program recorded once, then planted: stale entries at random positions of addressed files (unknown tests, nested ids, ordinals beyond the live count, sibling-prefix names), stale standalone and multi-entry files, `odd.snapx` (contains .snap: in scope), decoys without .snap in the name, a sub-directory with a snapshot file, a snapshot directory no test addresses, optional permutation of entry order; judged process without -run, with -count in {1,2,3,5}, optional snaps.Skip*/plain t.Skip, CI on/off, UPDATE_SNAPS in {unset,clean,true,other}, Sort on/off; oracle (offline, event log + pre/post copies): reported lists == stale items (skip-protected items are exempt either way), removed == listed iff off-CI with UPDATE_SNAPS true|clean, otherwise the multiset of (id, body) of every file is unchanged (order too unless Sort), decoys/sub-directories/unvisited directories bit-identical incl. backdated mtime; non-trivial = >=1 stale item and >=1 decoy in a visited directory; distinct by hash(scenario, planted items, flags)"
	p, done := workerProgram(c, "")
	defer done()
	if p == nil {
		return
	}
	lab := NewLab(p, "")
	lab.withTrim(c)
	n := c.N(2000, 100000)
	for i := 0; i < n; i++ {
		if !c.Mine(i) {
			continue
		}
		r := c.Rand("case", i)
		c.Guard(i, func() { runC09(c, lab, r, i) })
	}
	lab.Wipe()
}

func runC09(c *vkit.Ctx, lab *Lab, r *rand.Rand, i int) {
	lab.Wipe()
	lc := lab.Gen(r, LabOpts{Skips: true, Counts: true, Parallel: true, Hostile: true, Fuzz: true, Bench: true})
	lc.Run = ""
	lc.CI = r.IntN(4) == 0
	prog, trimmed := lab.prog(i)
	if trimmed {
		lc.Classes["trimpath-build"] = true
	}
	rec, ok := lab.recordWith(c, lc, prog)
	if !ok {
		c.Count("premise_record_failed", 1)
		return
	}
	own := BuildOwned(rec)
	sd := lab.Seed(r, own, LabOpts{Stale: true, Shuffle: true, Hostile: true})
	res := prog.RunChild(RunOpt{PkgDir: lab.PkgDir, Scenario: lc.withSkips(), Run: lc.Run, Count: lc.Count, Extra: lc.RunnerFlags(), Update: lc.Update, CI: lc.CI})
	in := labSample(lc)
	in["ci"] = lc.CI
	if !res.Complete {
		c.Violate("clean-did-not-complete", "", fmt.Sprintf("child died: %v %s", res.Err, res.Stderr), in)
		return
	}
	a := Analyze(res, lab.Src)
	prot := ComputeProtection(rec, a, lc)
	deletes, sorts := vkit.CleanPerm(vkit.Mode{CI: lc.CI, UpdateVar: lc.Update}, lc.Sort)
	c.Count("processes", 2)
	sum := res.Summary
	if sum == nil {
		sum = &Summary{}
	}
	snapsSkipped := map[string]bool{}
	for t, w := range lc.SkipNodes {
		if w != "plain" && a.Skipped[t] > 0 {
			snapsSkipped[t] = true
		}
	}
	exemptName := func(test string) bool { _, ok := ancestorOrSelf(snapsSkipped, test); return ok }

	addrEntry := map[[2]string]bool{}
	addrFile := map[string]bool{}
	multiAddr := map[string]bool{}
	visited := map[string]bool{}
	for _, cr := range a.Calls {
		addrFile[cr.Path] = true
		visited[filepath.Dir(cr.Path)] = true
		if !cr.Call.Standalone() {
			addrEntry[[2]string{cr.Path, vkit.SlotID(cr.Test, cr.K)}] = true
			multiAddr[cr.Path] = true
		}
	}
	// ---- entries
	var mustList, mayList []string
	staleItems := 0
	files := make([]string, 0, len(multiAddr))
	for f := range multiAddr {
		files = append(files, f)
	}
	sort.Strings(files)
	for _, f := range files {
		pre, tornPre := lab.preEntries(res, f)
		if len(tornPre) > 0 {
			c.Count("premise_pre_file_torn", 1)
			return
		}
		post, torn := vkit.ReadSnapFile(f)
		if len(torn) > 0 {
			c.Violate("file-torn-after-clean", "", strings.Join(torn, "; "), in)
			return
		}
		var stale, exempt []string
		for _, e := range pre {
			if addrEntry[[2]string{f, e.ID}] {
				continue
			}
			if exemptName(idTest(e.ID)) {
				exempt = append(exempt, e.ID)
			} else {
				stale = append(stale, e.ID)
			}
		}
		mustList = append(mustList, stale...)
		mayList = append(mayList, exempt...)
		staleItems += len(stale)
		// effect on the file
		var want []vkit.SnapEntry
		for _, e := range pre {
			isStale := false
			for _, s := range stale {
				if s == e.ID {
					isStale = true
				}
			}
			if deletes && isStale {
				continue
			}
			want = append(want, e)
		}
		key := func(es []vkit.SnapEntry) []string {
			out := make([]string, len(es))
			for i, e := range es {
				out[i] = e.ID + "\x00" + e.Body
			}
			return out
		}
		gotK, wantK := key(post), key(want)
		if !sorts {
			// exempt entries may legitimately be kept or removed? no: protected entries are kept (C08); so order and content are exact
			if fmt.Sprint(gotK) != fmt.Sprint(wantK) {
				kind := "entries-removed-or-altered-outside-clean-mode"
				if deletes {
					kind = "clean-mode-removed-other-than-reported"
				}
				c.Violate(kind, "", fmt.Sprintf("%s (CI=%v UPDATE_SNAPS=%q sort=%v count=%d): after Clean %v, expected %v", filepath.Base(f), lc.CI, lc.Update, lc.Sort, lc.Count, entryIDs(post), entryIDs(want)), in)
				return
			}
		} else {
			sort.Strings(gotK)
			sort.Strings(wantK)
			if fmt.Sprint(gotK) != fmt.Sprint(wantK) {
				c.Violate("sort-changed-the-set-of-entries", "", fmt.Sprintf("%s: after Clean %v, expected the multiset %v", filepath.Base(f), entryIDs(post), entryIDs(want)), in)
				return
			}
		}
		c.Count("files_examined", 1)
	}
	// ---- files
	var mustFiles, mayFiles []string
	decoysInVisited := 0
	for root, dg := range res.Pre {
		for rel, e := range dg {
			if e.Type != "f" && e.Type != "l" {
				continue
			}
			p := filepath.Join(root, rel)
			dir := filepath.Dir(p)
			inScope := visited[dir] && strings.Contains(filepath.Base(p), ".snap")
			if !inScope {
				// decoy: never touched in any way
				if visited[dir] || sd.Decoys[p] {
					decoysInVisited++
				}
				if lab.written(res, p) {
					c.Violate("clean-touched-out-of-scope-path", "", fmt.Sprintf("%s (no `.snap` in its name, or in a sub-directory / unvisited directory) changed across Clean", p), in)
					return
				}
				continue
			}
			if addrFile[p] {
				continue
			}
			exempt := false
			if t, ok := own.SAFile[p]; ok && (prot.Reason[t] == "skip") {
				exempt = true
			}
			for t := range own.FileOwn[p] {
				if prot.Reason[t] == "skip" {
					exempt = true
				}
			}
			if exempt {
				mayFiles = append(mayFiles, p)
			} else {
				mustFiles = append(mustFiles, p)
			}
		}
	}
	staleItems += len(mustFiles)
	// ---- lists
	if msg := listMismatch(sum.Tests, mustList, mayList); msg != "" {
		c.Violate("obsolete-tests-list", "", fmt.Sprintf("CI=%v UPDATE_SNAPS=%q sort=%v count=%d: %s", lc.CI, lc.Update, lc.Sort, lc.Count, msg), in)
		return
	}
	if msg := listMismatch(sum.Files, mustFiles, mayFiles); msg != "" {
		c.Violate("obsolete-files-list", "", fmt.Sprintf("CI=%v UPDATE_SNAPS=%q: %s", lc.CI, lc.Update, msg), in)
		return
	}
	verb := "obsolete"
	if deletes {
		verb = "removed"
	}
	if (len(sum.Tests) > 0 && sum.TestsVerb != verb) || (len(sum.Files) > 0 && sum.FilesVerb != verb) {
		c.Violate("summary-wording", "", fmt.Sprintf("verbs %q/%q, expected %q", sum.TestsVerb, sum.FilesVerb, verb), in)
		return
	}
	// ---- file removal
	for _, p := range append(append([]string{}, mustFiles...), mayFiles...) {
		listed := inList(sum.Files, p)
		gone := !lab.existsPost(res, p)
		if gone != (deletes && listed) {
			c.Violate("file-removal-vs-mode", "", fmt.Sprintf("%s: listed=%v removed=%v with CI=%v UPDATE_SNAPS=%q", p, listed, gone, lc.CI, lc.Update), in)
			return
		}
		if !gone && lab.written(res, p) {
			c.Violate("clean-wrote-unaddressed-file", "", p, in)
			return
		}
	}
	c.Count("stale_items_judged", staleItems)
	c.Count("decoys_judged", decoysInVisited)
	for k := range lc.Classes {
		c.Count("class:"+k, 1)
	}
	mode := fmt.Sprintf("mode:ci=%v,update=%s,sort=%v", lc.CI, lc.Update, lc.Sort)
	c.Count(mode, 1)
	c.Case(vkit.Hash(fmt.Sprint(in), fmt.Sprint(sd.StaleEntries), fmt.Sprint(sd.StaleFiles)), staleItems > 0 && decoysInVisited > 0)
	if i%41 == 0 {
		in["stale_entries"] = mustList
		in["stale_files"] = len(mustFiles)
		c.Sample(in)
	}
}

// listMismatch: got must contain every `must` item and nothing outside must+may.
func listMismatch(got, must, may []string) string {
	g := multisetOf(got)
	for _, m := range must {
		if g[m] == 0 {
			return fmt.Sprintf("stale item %q is not reported (reported: %v)", m, got)
		}
		g[m]--
	}
	for _, m := range may {
		if g[m] > 0 {
			g[m]--
		}
	}
	for k, v := range g {
		if v > 0 {
			return fmt.Sprintf("%q is reported but is neither stale nor exempt (stale: %v)", k, must)
		}
	}
	return ""
}

// StaleOracle computes, for a judged run without -run, which entries and files
// must be reported obsolete and which may be (skip-protected: exempt either way).
func StaleOracle(lab *Lab, res *RunResult, a *Analysis, own *Owned, prot *Protection, lc *LabCase) (mustT, mayT, mustF, mayF []string, ok bool) {
	snapsSkipped := map[string]bool{}
	for t, w := range lc.SkipNodes {
		if w != "plain" && a.Skipped[t] > 0 {
			snapsSkipped[t] = true
		}
	}
	addrEntry := map[[2]string]bool{}
	addrFile := map[string]bool{}
	multiAddr := map[string]bool{}
	visited := map[string]bool{}
	for _, cr := range a.Calls {
		addrFile[cr.Path] = true
		visited[filepath.Dir(cr.Path)] = true
		if !cr.Call.Standalone() {
			addrEntry[[2]string{cr.Path, vkit.SlotID(cr.Test, cr.K)}] = true
			multiAddr[cr.Path] = true
		}
	}
	for f := range multiAddr {
		pre, torn := lab.preEntries(res, f)
		if len(torn) > 0 {
			return nil, nil, nil, nil, false
		}
		for _, e := range pre {
			if addrEntry[[2]string{f, e.ID}] {
				continue
			}
			if _, ex := ancestorOrSelf(snapsSkipped, idTest(e.ID)); ex {
				mayT = append(mayT, e.ID)
			} else {
				mustT = append(mustT, e.ID)
			}
		}
	}
	for root, dg := range res.Pre {
		for rel, e := range dg {
			if e.Type != "f" && e.Type != "l" {
				continue // symbolic links are directory entries like regular files
			}
			p := filepath.Join(root, rel)
			if !visited[filepath.Dir(p)] || !strings.Contains(filepath.Base(p), ".snap") || addrFile[p] {
				continue
			}
			exempt := false
			if t, ok := own.SAFile[p]; ok && prot.Reason[t] == "skip" {
				exempt = true
			}
			for t := range own.FileOwn[p] {
				if prot.Reason[t] == "skip" {
					exempt = true
				}
			}
			if exempt {
				mayF = append(mayF, p)
			} else {
				mustF = append(mustF, p)
			}
		}
	}
	return mustT, mayT, mustF, mayF, true
}
