package engb

import (
	"flag"
	"fmt"
	"os"
	"path/filepath"
	"testing"

	"verifharness/vkit"
)

var checks = map[string]func(*vkit.Ctx){}

func register(id string, f func(*vkit.Ctx)) { checks[id] = f }

func TestMain(m *testing.M) {
	flag.Parse()
	prop := os.Getenv("VERIF_PROP")
	if prop == "" {
		os.Exit(m.Run())
	}
	f, ok := checks[prop]
	if !ok {
		fmt.Fprintln(os.Stderr, "engb: no check for", prop)
		os.Exit(3)
	}
	ctx := vkit.NewCtxFromEnv("B")
	f(ctx)
	ctx.Finish()
	os.Exit(0)
}

// workerProgram writes and builds the default program in a scratch directory
// owned by this worker. The snapshot directories of the program live next to its
// sources (that is what the library computes), so the tree stays in place for the
// whole run and is removed by the returned cleanup.
func workerProgram(c *vkit.Ctx, tag string, extra ...string) (*Program, func()) {
	root := vkit.MkScratch("prog")
	sh := DefaultShape()
	if err := WriteProgram(root, sh); err != nil {
		c.Inconclusive("cannot write program: " + err.Error())
		return nil, func() { os.RemoveAll(root) }
	}
	p, err := Build(root, sh, tag, extra...)
	if err != nil {
		c.Inconclusive("cannot build generated program: " + err.Error())
		return nil, func() { os.RemoveAll(root) }
	}
	return p, func() { os.RemoveAll(root) }
}

// wipeSnapshots removes every snapshot directory of the program between cases.
func (p *Program) wipeSnapshots(extra ...string) {
	for _, pk := range p.Shape.Pkgs {
		d := filepath.Join(p.Root, pk.Dir)
		ents, _ := os.ReadDir(d)
		for _, e := range ents {
			if e.IsDir() && (e.Name() == "__snapshots__" || len(e.Name()) > 5 && e.Name()[:5] == "snaps") {
				os.RemoveAll(filepath.Join(d, e.Name()))
			}
		}
	}
	for _, x := range extra {
		os.RemoveAll(x)
	}
}

// withTrim additionally builds the worker's program with -trimpath.
func (l *Lab) withTrim(c *vkit.Ctx) {
	t, err := Build(l.P.Root, l.P.Shape, "trim", "-trimpath")
	if err != nil {
		c.Inconclusive("cannot build generated program with -trimpath: " + err.Error())
		return
	}
	l.Trim = t
}

// prog picks the binary set for a case: the -trimpath build for a quarter of the
// cases (the child runs from the package directory, which is where -trimpath builds
// resolve relative snapshot directories).
func (l *Lab) prog(caseIdx int) (*Program, bool) {
	if l.Trim != nil && caseIdx%4 == 3 {
		return l.Trim, true
	}
	return l.P, false
}
