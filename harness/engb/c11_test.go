package engb

import (
	"fmt"
	"math/rand/v2"
	"os"
	"path/filepath"
	"regexp"
	"sort"
	"strings"

	"verifharness/vkit"
)

func init() { register("C11", checkC11) }

// trimGorootClass: the child was built with -trimpath and ran with GOROOT exported and no
// -trimpath hint in GOFLAGS (fixed entry of known_findings.json).
func trimGorootClass(res *RunResult) string {
	if res != nil && len(res.TrimEnv) == 1 && strings.HasPrefix(res.TrimEnv[0], "GOROOT=") {
		return "trimpath-build-with-GOROOT-exported"
	}
	return ""
}

var footerRE = regexp.MustCompile(`(?m)^at (.+):(\d+)$`)

func checkC11(c *vkit.Ctx) {
	c.P.Rule = "case = real test program (root package and a package two levels deep; helpers in the same test file, in another test file of the package, in a non-test file (also reached through that other test file, so one non-test call statement serves two test files within one test), in a sub-package; the call statement below 20-300 recursive frames of a non-test file; closures; goroutines; bare deferred calls that run on normal return, during a recovered panic and during runtime.Goexit; subtests 1-3 deep with spaces, `#`, unicode, `%`, `/` in their names) x Dir{unset, relative, nested relative, absolute} x Filename{unset,set} x Ext{unset, .txt, .snapshot, .snap.json, .golden.txt, _v2, .snap} x the five entry points, launched (a) with cwd = package directory, (b) from three foreign working directories, (c) built with -trimpath and run from the package directory; oracle: the set of files created anywhere under the module tree, the absolute directory and the working directory == the set the C11 location function gives for the calls in the event log; then every value is changed under Update(false) and the `at <rel>:<line>` footer of each failure report must resolve to the same file; non-trivial = call through >=1 helper frame, or a non-default option, or the deep package; distinct by hash(scenario, launch mode)"
	c.P.Assumptions = []string{"-trimpath combined with a foreign working directory is the README's documented limitation and is not generated", "the calling test file is the nearest _test.go file on the stack at the call (a helper in another test file of the package makes that file the calling one)", "subtest closures defined in non-test files are outside the statement's well-defined cases and are not generated"}
	root := vkit.MkScratch("prog")
	defer os.RemoveAll(root)
	sh := DefaultShape()
	if err := WriteProgram(root, sh); err != nil {
		c.Inconclusive(err.Error())
		return
	}
	plain, err := Build(root, sh, "")
	if err != nil {
		c.Inconclusive("cannot build generated program: " + err.Error())
		return
	}
	trim, err := Build(root, sh, "trim", "-trimpath")
	if err != nil {
		c.Inconclusive("cannot build generated program with -trimpath: " + err.Error())
		return
	}
	foreign := []string{vkit.MkScratch("cwd-a"), vkit.MkScratch("cwd-b"), os.TempDir()}
	defer os.RemoveAll(foreign[0])
	defer os.RemoveAll(foreign[1])
	absDir := vkit.MkScratch("abs-out")
	defer os.RemoveAll(absDir)
	n := c.N(1200, 30000)
	for i := 0; i < n; i++ {
		if !c.Mine(i) {
			continue
		}
		r := c.Rand("case", i)
		c.Guard(i, func() { runC11(c, plain, trim, foreign, absDir, r, i) })
	}
}

func runC11(c *vkit.Ctx, plain, trim *Program, foreign []string, absDir string, r *rand.Rand, i int) {
	p := plain
	pkg := []string{"", "", "deep/er"}[r.IntN(3)]
	src := p.pkgSrcDir(pkg)
	// clean slate: remove every snapshot-looking thing from earlier cases
	for _, pk := range p.Shape.Pkgs {
		d := p.pkgSrcDir(pk.Dir)
		for _, n := range []string{"__snapshots__", "snaps_rel", "snaps_nested", "coverage 100%", "r%d"} {
			os.RemoveAll(filepath.Join(d, n))
		}
	}
	os.RemoveAll(filepath.Join(p.Root, "util", "__snapshots__"))
	os.RemoveAll(absDir)
	os.MkdirAll(absDir, 0o755)
	for _, f := range foreign[:2] {
		ents, _ := os.ReadDir(f)
		for _, e := range ents {
			os.RemoveAll(filepath.Join(f, e.Name()))
		}
	}
	nontrivialEnv := false
	_ = nontrivialEnv
	launch := []string{"pkgdir", "pkgdir", "foreign0", "foreign1", "foreign2", "trimpath"}[r.IntN(6)]
	cwd := ""
	switch launch {
	case "foreign0":
		cwd = foreign[0]
	case "foreign1":
		cwd = foreign[1]
	case "foreign2":
		cwd = foreign[2]
	case "trimpath":
		p = trim
	}
	var tops []string
	for _, pk := range p.Shape.Pkgs {
		if pk.Dir == pkg {
			for _, f := range pk.Files {
				tops = append(tops, f.Tests...)
			}
		}
	}
	roots := []string{p.Root, absDir}
	if cwd != "" && cwd != os.TempDir() {
		roots = append(roots, cwd)
	}
	scn := &Scenario{Nodes: map[string]*Node{}, Roots: roots, NoClean: true}
	if launch != "trimpath" && r.IntN(5) == 0 {
		// TestMain of an ORDINARY build appends -trimpath to GOFLAGS for the builds its tests
		// start; the binary was not built with it and its snapshots stay where they are
		scn.SetGoflags = []string{"-trimpath", "--trimpath", "-trimpath -count=1"}[r.IntN(3)]
		nontrivialEnv = true
	}
	nontrivial := pkg != ""
	dirs := []string{"", "", "snaps_rel", "snaps_nested/a/b", absDir, "coverage 100%", "r%d/%s", filepath.Join(absDir, "50%off")}
	subs := []string{"b", "c d", "x1", "b#01", "ü", "100%", "x/y", "Sub10", "v1.2", "input.json", "ratio=0.5"}
	nt := 1 + r.IntN(3)
	if nt > len(tops) {
		nt = len(tops)
	}
	r.Shuffle(len(tops), func(a, b int) { tops[a], tops[b] = tops[b], tops[a] })
	usedSA := map[string]bool{}
	var addNode func(name string, depth int)
	addNode = func(name string, depth int) {
		n := &Node{}
		scn.Nodes[name] = n
		for k := 0; k < 1+r.IntN(3); k++ {
			api := []string{"snap", "json", "yaml", "ssnap", "sjson"}[r.IntN(5)]
			cl := Call{API: api, Dir: dirs[r.IntN(len(dirs))], Via: []string{"", "", "helper", "helper2", "subpkg", "closure", "goroutine", "direct-nontest", "direct-nontest", "direct-nontest-helper", "direct-othertest", "nontest-via-othertest", "nontest-via-othertest"}[r.IntN(13)]}
			if r.IntN(8) == 0 {
				cl.Via = []string{"defer-panic", "defer-goexit", "defer-return"}[r.IntN(3)]
			}
			if r.IntN(8) == 0 {
				// the call statement below 20-300 frames of a non-test file (recursive helpers)
				cl.Via = fmt.Sprintf("deep-nontest-%d", []int{20, 29, 30, 31, 32, 33, 40, 64, 100, 128, 300}[r.IntN(11)])
			}
			if r.IntN(3) == 0 {
				cl.File = "named"
				if cl.Standalone() {
					cl.File = "sa_" + fmt.Sprint(len(usedSA))
					usedSA[cl.File] = true
				}
			}
			if r.IntN(3) == 0 {
				// extensions with several dots, without a dot, and ones that contain `.snap` themselves
				cl.Ext = []string{".txt", ".txt", ".snapshot", ".snap.json", ".golden.txt", "_v2", ".snap"}[r.IntN(7)]
			}
			if r.IntN(10) == 0 && cl.Dir == "" && cl.File == "" && cl.Ext == "" && !strings.HasPrefix(cl.Via, "direct") {
				cl.Pkg = true // package-level function
			}
			if cl.Via != "" || cl.Dir != "" || cl.File != "" || cl.Ext != "" {
				nontrivial = true
			}
			cl.Val = fmt.Sprintf("first-%s-%d", name, k)
			switch api {
			case "json", "sjson":
				cl.Val = fmt.Sprintf(`{"v":"first-%d"}`, k)
			case "yaml":
				cl.Val = fmt.Sprintf("v: first-%d\n", k)
			}
			n.Calls = append(n.Calls, cl)
		}
		if depth < 3 && r.IntN(2) == 0 {
			s := subs[r.IntN(len(subs))]
			n.Subs = append(n.Subs, s)
			full := name + "/" + tName(s)
			addNode(full, depth+1)
		}
	}
	for _, t := range tops[:nt] {
		addNode(t, 0)
	}
	in := map[string]any{"package": pkg, "launch": launch, "cwd": cwd, "nodes": scn.Nodes}
	res := p.RunChild(RunOpt{PkgDir: pkg, Scenario: scn, Cwd: cwd})
	if !res.Complete {
		c.Violate("run-did-not-complete", "", fmt.Sprintf("%v %s", res.Err, res.Stderr), in)
		return
	}
	a := Analyze(res, src)
	want := map[string]bool{}
	for _, cr := range a.Calls {
		if cr.Outcome != vkit.Added && cr.Outcome != vkit.Passed {
			c.Violate("recording-call-failed", pctNameClass(cr.Test), fmt.Sprintf("%s %s via %q: %s: %s", cr.Test, cr.Call.API, cr.Call.Via, cr.Outcome, vkit.Clip(strings.Join(cr.Signals.Errors, "|"), 200)), in)
			return
		}
		want[cr.Path] = true
	}
	got := map[string]bool{}
	for _, root := range roots {
		for rel, e := range res.Final[root] {
			if e.Type != "f" {
				continue
			}
			if _, was := res.Initial[root][rel]; was {
				continue
			}
			got[filepath.Join(root, rel)] = true
		}
	}
	if fmt.Sprint(keysOf(got)) != fmt.Sprint(keysOf(want)) {
		c.Violate("snapshot-location", trimGorootClass(res), fmt.Sprintf("launch=%s %v package=%q: created %v, the location function gives %v", launch, res.TrimEnv, pkg, relAll(keysOf(got), p.Root), relAll(keysOf(want), p.Root)), in)
		return
	}
	c.Count("location_sets_compared", 1)
	c.Count("files_located", len(got))
	// footer of a provoked mismatch
	f := false
	for _, n := range scn.Nodes {
		for k := range n.Calls {
			n.Calls[k].Val = strings.Replace(n.Calls[k].Val, "first", "second", 1)
			n.Calls[k].Update = &f
		}
	}
	res2 := p.RunChild(RunOpt{PkgDir: pkg, Scenario: scn, Cwd: cwd})
	if res2.Complete {
		a2 := Analyze(res2, src)
		for _, cr := range a2.Calls {
			if cr.Outcome != vkit.Failed {
				c.Violate("changed-value-not-reported", "", fmt.Sprintf("%s %s: %s", cr.Test, cr.Call.API, cr.Outcome), in)
				return
			}
			m := footerRE.FindStringSubmatch(vkit.StripANSI(cr.Signals.Errors[0]))
			if m == nil {
				c.Violate("failure-report-without-footer", trimGorootClass(res2), vkit.Q(cr.Signals.Errors[0]), in)
				return
			}
			base := src
			if launch == "trimpath" {
				base = src // cwd = package directory
			}
			resolved := m[1]
			if !filepath.IsAbs(resolved) {
				resolved = filepath.Join(base, m[1])
			}
			if filepath.Clean(resolved) != cr.Path {
				c.Violate("footer-names-another-file", "", fmt.Sprintf("footer `at %s` resolves to %s, the snapshot is %s", m[1], resolved, cr.Path), in)
				return
			}
			c.Count("footers_resolved", 1)
		}
	}
	c.Count("launch:"+launch, 1)
	c.Count("package:"+pkg, 1)
	for _, n := range scn.Nodes {
		for _, cl := range n.Calls {
			c.Count("via:"+cl.Via, 1)
		}
	}
	c.Case(vkit.Hash(fmt.Sprint(in)), nontrivial)
	if i%61 == 0 {
		c.Sample(map[string]any{"package": pkg, "launch": launch, "created": relAll(keysOf(got), p.Root)})
	}
}

func pctNameClass(test string) string {
	if strings.Contains(test, "%") {
		return "percent-in-standalone-path"
	}
	return ""
}

func keysOf(m map[string]bool) []string {
	out := make([]string, 0, len(m))
	for k := range m {
		out = append(out, k)
	}
	sort.Strings(out)
	return out
}

func relAll(ps []string, root string) []string {
	out := make([]string, len(ps))
	for i, p := range ps {
		if r, err := filepath.Rel(root, p); err == nil && !strings.HasPrefix(r, "..") {
			out[i] = r
		} else {
			out[i] = p
		}
	}
	return out
}
