package engb

import (
	"fmt"
	"math/rand/v2"
	"os"
	"path/filepath"
	"strings"

	"verifharness/vkit"
)

func init() { register("C12", checkC12Defaults) }

// checkC12Defaults is the engine-B part of C12: real test programs call the
// PACKAGE-LEVEL entry points (snaps.MatchSnapshot, snaps.MatchStandaloneJSON, ...)
// in random orders, interleaved with calls through WithConfig() values. If any of
// them changed the package-level defaults (e.g. the extension), a later call would
// land in another file: the created set is compared with the location function, and
// a second process must replay everything as passed.
func checkC12Defaults(c *vkit.Ctx) {
	c.P.Rule = "engine-B part: sequences of package-level entry points (all five, random order, 2-8 calls per test, 1-3 tests) interleaved with zero-option WithConfig() calls in a real test process; created files must equal the location function's set and a second process must pass every call; second part: 2-5 calls with the same relative (or default) Dir through separate Configs, one caller a subtest body defined in a non-test file of the sub-package (another directory), run in two orders from a clean slate in fresh processes: equal sets of created files, then a CI process replays them all and creates nothing"
	p, done := workerProgram(c, "")
	defer done()
	if p == nil {
		return
	}
	n := c.N(150, 5000)
	for i := 0; i < n; i++ {
		if !c.Mine(i) {
			continue
		}
		r := c.Rand("defaults", i)
		c.Guard(i, func() { runC12Defaults(c, p, r, i) })
	}
	os.RemoveAll(filepath.Join(p.Root, "__snapshots__"))
	m := c.N(60, 2000)
	for j := 0; j < m; j++ {
		i := 1000000 + j
		if !c.Mine(i) {
			continue
		}
		r := c.Rand("dirs", j)
		c.Guard(i, func() { runC12CallerDirs(c, p, r, i) })
	}
}

// runC12CallerDirs: Configs with the same options (relative Dir, or none) used by callers
// that live in different directories - the test file, and a subtest body defined in a
// non-test file of a sub-package. Where each call stores its snapshot must not depend on
// which of them was made first: the same calls in two orders (each from a clean slate, each
// in a fresh process) must create the same set of files, and a third process making the
// calls in yet another order must pass them all.
func runC12CallerDirs(c *vkit.Ctx, p *Program, r *rand.Rand, i int) {
	wipe := func() {
		for _, d := range []string{"", "util"} {
			for _, n := range []string{"__snapshots__", "snaps_rel", "snaps_nested"} {
				os.RemoveAll(filepath.Join(p.Root, d, n))
			}
		}
	}
	wipe()
	defer wipe()
	dir := []string{"", "snaps_rel", "snaps_nested/a"}[r.IntN(3)]
	var calls []Call
	nc := 2 + r.IntN(4)
	for k := 0; k < nc; k++ {
		api := []string{"snap", "json", "yaml", "ssnap", "sjson"}[r.IntN(5)]
		cl := Call{API: api, Dir: dir, Tag: fmt.Sprint(k)}
		if k == 0 || (k > 1 && r.IntN(2) == 0) {
			cl.Via = "subpkg-body"
		} else if r.IntN(3) == 0 {
			cl.Via = "direct-nontest"
		}
		if r.IntN(3) == 0 {
			cl.File = fmt.Sprintf("f%d", k)
		}
		switch api {
		case "json", "sjson":
			cl.Val = fmt.Sprintf(`{"k":%d}`, k)
		case "yaml":
			cl.Val = fmt.Sprintf("k: %d\n", k)
		default:
			cl.Val = fmt.Sprintf("call %d", k)
		}
		calls = append(calls, cl)
	}
	// standalone calls of one test share an ordinal sequence: keep their relative order and
	// permute everything else around them
	perm := func(rr *rand.Rand) []Call {
		var multi, sa []Call
		for _, cl := range calls {
			if cl.Standalone() {
				sa = append(sa, cl)
			} else {
				multi = append(multi, cl)
			}
		}
		rr.Shuffle(len(multi), func(a, b int) { multi[a], multi[b] = multi[b], multi[a] })
		out := make([]Call, 0, len(calls))
		for len(multi)+len(sa) > 0 {
			if len(sa) == 0 || (len(multi) > 0 && rr.IntN(2) == 0) {
				out, multi = append(out, multi[0]), multi[1:]
			} else {
				out, sa = append(out, sa[0]), sa[1:]
			}
		}
		return out
	}
	created := func(order []Call, ci bool) ([]string, *RunResult) {
		scn := &Scenario{Nodes: map[string]*Node{"TestA": {Calls: order}}, Roots: []string{p.Root}, NoClean: true}
		res := p.RunChild(RunOpt{PkgDir: "", Scenario: scn, CI: ci})
		got := map[string]bool{}
		for rel, e := range res.Final[p.Root] {
			if _, was := res.Initial[p.Root][rel]; !was && e.Type == "f" {
				got[rel] = true
			}
		}
		return keysOf(got), res
	}
	vias := func(o []Call) []string {
		out := make([]string, len(o))
		for k, cl := range o {
			out[k] = cl.API + ":" + cl.Via + ":" + cl.File
		}
		return out
	}
	// multi-entry calls of one test to one file are told apart by their ordinal, which follows
	// the order: judge the SET of files, which does not
	o1 := append([]Call(nil), calls...)
	o2 := perm(r)
	in := map[string]any{"part": "callers in several directories", "dir": dir, "order1": vias(o1), "order2": vias(o2)}
	f1, res1 := created(o1, false)
	if !res1.Complete {
		c.Violate("run-did-not-complete", "", fmt.Sprint(res1.Err, res1.Stderr), in)
		return
	}
	wipe()
	f2, res2 := created(o2, false)
	if !res2.Complete {
		c.Violate("run-did-not-complete", "", fmt.Sprint(res2.Err, res2.Stderr), in)
		return
	}
	if fmt.Sprint(f1) != fmt.Sprint(f2) {
		c.Violate("location-depends-on-earlier-calls", "", fmt.Sprintf("Dir(%q): order %v created %v, order %v created %v", dir, vias(o1), f1, vias(o2), f2), in)
		return
	}
	util := 0
	for _, f := range f1 {
		if strings.HasPrefix(f, "util/") {
			util++
		}
	}
	if util == 0 || util == len(f1) {
		c.Count("caller_dir_cases_with_one_directory_only", 1)
	}
	// the files order 2 left behind replay (CI: nothing may be created, nothing fails)
	f3, res3 := created(o2, true)
	if res3.Complete {
		if len(f3) > 0 {
			c.Violate("location-depends-on-earlier-calls", "", fmt.Sprintf("Dir(%q): replaying order %v in a CI process created %v", dir, vias(o2), f3), in)
			return
		}
		for _, e := range res3.Events {
			if e.Ev == "sig" && e.Kind == "Error" {
				c.Violate("caller-dirs-replay-failed", "", vkit.Clip(e.Text, 300), in)
				return
			}
		}
	}
	c.Count("caller_dir_order_pairs", 1)
	c.Count("caller_dir_calls", 3*len(calls))
	c.Case(vkit.Hash("dirs", fmt.Sprint(in), i), true)
	if i%13 == 0 {
		c.Sample(map[string]any{"part": "callers in several directories (engine B)", "dir": dir, "order1": vias(o1), "order2": vias(o2), "created": f1})
	}
}

func runC12Defaults(c *vkit.Ctx, p *Program, r *rand.Rand, i int) {
	os.RemoveAll(filepath.Join(p.Root, "__snapshots__"))
	scn := &Scenario{Nodes: map[string]*Node{}, Roots: []string{p.Root}, NoClean: true}
	tops := []string{"TestA", "TestB", "TestC"}
	var order []string
	for _, t := range tops[:1+r.IntN(3)] {
		n := &Node{}
		for k := 0; k < 2+r.IntN(7); k++ {
			api := []string{"snap", "json", "yaml", "ssnap", "sjson", "sjson"}[r.IntN(6)]
			cl := Call{API: api, Pkg: r.IntN(4) != 0}
			switch api {
			case "json", "sjson":
				cl.Val = fmt.Sprintf(`{"t":%q,"k":%d}`, t, k)
			case "yaml":
				cl.Val = fmt.Sprintf("t: %s\nk: %d\n", t, k)
			default:
				cl.Val = fmt.Sprintf("%s call %d", t, k)
			}
			n.Calls = append(n.Calls, cl)
			order = append(order, api)
		}
		scn.Nodes[t] = n
	}
	in := map[string]any{"part": "package-level defaults", "nodes": scn.Nodes}
	res := p.RunChild(RunOpt{PkgDir: "", Scenario: scn})
	if !res.Complete {
		c.Violate("run-did-not-complete", "", fmt.Sprint(res.Err, res.Stderr), in)
		return
	}
	a := Analyze(res, p.pkgSrcDir(""))
	want := map[string]bool{}
	for _, cr := range a.Calls {
		want[cr.Path] = true
		if cr.Outcome != vkit.Added {
			c.Violate("package-level-call-not-recorded", "", fmt.Sprintf("%s %s: %s %s", cr.Test, cr.Call.API, cr.Outcome, strings.Join(cr.Signals.Errors, "|")), in)
			return
		}
	}
	got := map[string]bool{}
	for rel, e := range res.Final[p.Root] {
		if _, was := res.Initial[p.Root][rel]; !was && e.Type == "f" {
			got[filepath.Join(p.Root, rel)] = true
		}
	}
	if fmt.Sprint(keysOf(got)) != fmt.Sprint(keysOf(want)) {
		c.Violate("defaults-changed-by-package-level-call", "", fmt.Sprintf("call order %v: created %v, location function gives %v", order, relAll(keysOf(got), p.Root), relAll(keysOf(want), p.Root)), in)
		return
	}
	res2 := p.RunChild(RunOpt{PkgDir: "", Scenario: scn, CI: true})
	if res2.Complete {
		for _, cr := range Analyze(res2, p.pkgSrcDir("")).Calls {
			if cr.Outcome != vkit.Passed {
				c.Violate("package-level-replay-failed", "", fmt.Sprintf("%s %s: %s", cr.Test, cr.Call.API, cr.Outcome), in)
				return
			}
		}
	}
	c.Count("package_level_sequences", 1)
	c.Count("package_level_calls", len(a.Calls))
	c.Case(vkit.Hash("defaults", fmt.Sprint(order), i), true)
	if i%17 == 0 {
		c.Sample(map[string]any{"part": "package-level defaults (engine B)", "call_order": order, "created": relAll(keysOf(got), p.Root)})
	}
}
