package engb

import (
	"fmt"
	"math/rand/v2"
	"os"
	"path/filepath"
	"strings"

	"verifharness/vkit"
)

func init() { register("C12", checkC12Defaults) }

// checkC12Defaults is the engine-B part of C12: real test programs call the
// PACKAGE-LEVEL entry points (snaps.MatchSnapshot, snaps.MatchStandaloneJSON, ...)
// in random orders, interleaved with calls through WithConfig() values. If any of
// them changed the package-level defaults (e.g. the extension), a later call would
// land in another file: the created set is compared with the location function, and
// a second process must replay everything as passed.
func checkC12Defaults(c *vkit.Ctx) {
	c.P.Rule = "engine-B part: sequences of package-level entry points (all five, random order, 2-8 calls per test, 1-3 tests) interleaved with zero-option WithConfig() calls in a real test process; created files must equal the location function's set and a second process must pass every call"
	p, done := workerProgram(c, "")
	defer done()
	if p == nil {
		return
	}
	n := c.N(150, 5000)
	for i := 0; i < n; i++ {
		if !c.Mine(i) {
			continue
		}
		r := c.Rand("defaults", i)
		c.Guard(i, func() { runC12Defaults(c, p, r, i) })
	}
	os.RemoveAll(filepath.Join(p.Root, "__snapshots__"))
}

func runC12Defaults(c *vkit.Ctx, p *Program, r *rand.Rand, i int) {
	os.RemoveAll(filepath.Join(p.Root, "__snapshots__"))
	scn := &Scenario{Nodes: map[string]*Node{}, Roots: []string{p.Root}, NoClean: true}
	tops := []string{"TestA", "TestB", "TestC"}
	var order []string
	for _, t := range tops[:1+r.IntN(3)] {
		n := &Node{}
		for k := 0; k < 2+r.IntN(7); k++ {
			api := []string{"snap", "json", "yaml", "ssnap", "sjson", "sjson"}[r.IntN(6)]
			cl := Call{API: api, Pkg: r.IntN(4) != 0}
			switch api {
			case "json", "sjson":
				cl.Val = fmt.Sprintf(`{"t":%q,"k":%d}`, t, k)
			case "yaml":
				cl.Val = fmt.Sprintf("t: %s\nk: %d\n", t, k)
			default:
				cl.Val = fmt.Sprintf("%s call %d", t, k)
			}
			n.Calls = append(n.Calls, cl)
			order = append(order, api)
		}
		scn.Nodes[t] = n
	}
	in := map[string]any{"part": "package-level defaults", "nodes": scn.Nodes}
	res := p.RunChild(RunOpt{PkgDir: "", Scenario: scn})
	if !res.Complete {
		c.Violate("run-did-not-complete", "", fmt.Sprint(res.Err, res.Stderr), in)
		return
	}
	a := Analyze(res, p.pkgSrcDir(""))
	want := map[string]bool{}
	for _, cr := range a.Calls {
		want[cr.Path] = true
		if cr.Outcome != vkit.Added {
			c.Violate("package-level-call-not-recorded", "", fmt.Sprintf("%s %s: %s %s", cr.Test, cr.Call.API, cr.Outcome, strings.Join(cr.Signals.Errors, "|")), in)
			return
		}
	}
	got := map[string]bool{}
	for rel, e := range res.Final[p.Root] {
		if _, was := res.Initial[p.Root][rel]; !was && e.Type == "f" {
			got[filepath.Join(p.Root, rel)] = true
		}
	}
	if fmt.Sprint(keysOf(got)) != fmt.Sprint(keysOf(want)) {
		c.Violate("defaults-changed-by-package-level-call", "", fmt.Sprintf("call order %v: created %v, location function gives %v", order, relAll(keysOf(got), p.Root), relAll(keysOf(want), p.Root)), in)
		return
	}
	res2 := p.RunChild(RunOpt{PkgDir: "", Scenario: scn, CI: true})
	if res2.Complete {
		for _, cr := range Analyze(res2, p.pkgSrcDir("")).Calls {
			if cr.Outcome != vkit.Passed {
				c.Violate("package-level-replay-failed", "", fmt.Sprintf("%s %s: %s", cr.Test, cr.Call.API, cr.Outcome), in)
				return
			}
		}
	}
	c.Count("package_level_sequences", 1)
	c.Count("package_level_calls", len(a.Calls))
	c.Case(vkit.Hash("defaults", fmt.Sprint(order), i), true)
	if i%17 == 0 {
		c.Sample(map[string]any{"part": "package-level defaults (engine B)", "call_order": order, "created": relAll(keysOf(got), p.Root)})
	}
}
