package engb

import (
	"fmt"
	"math/rand/v2"
	"os"
	"path/filepath"
	"regexp"
	"sort"
	"strings"

	"verifharness/vkit"
)

// LabOpts steers the generator of Clean-centred cases (C07-C10, C20).
type LabOpts struct {
	Skips     bool // some nodes call snaps.Skip* (and plain t.Skip as a control)
	RunFilter bool // some runs use -test.run
	Counts    bool // -test.count in {1,2,3,5}
	Stale     bool // seed stale entries / files / decoys before the judged run
	Shuffle   bool // permute entry order of files before the judged run
	Hostile   bool // bodies with blank / terminator-like / header-like lines
	Fuzz      bool // include fuzz seed-corpus nodes
	Outcomes  bool // provoke failed/updated outcomes (C20)
	Parallel  bool
	TornTail  bool // some addressed files end in an unterminated (half written) stale entry
	Bench     bool // some cases are benchmark programs (go test -bench, handles of type *testing.B)
}

type Lab struct {
	Trim   *Program // the same sources built with -trimpath (nil when not built)
	P      *Program
	PkgDir string
	Src    string // package source dir
	AbsDir string // absolute snapshot dir outside the package
	Roots  []string
}

func NewLab(p *Program, pkgDir string) *Lab {
	l := &Lab{P: p, PkgDir: pkgDir, Src: p.pkgSrcDir(pkgDir)}
	// (the directory's own name contains `.snap`: only FILE names decide what a snapshot file is)
	l.AbsDir = filepath.Join(p.Root, "abs.snaps_"+strings.ReplaceAll(pkgDir, "/", "_"))
	l.Roots = []string{filepath.Join(l.Src, "__snapshots__"), filepath.Join(l.Src, "snaps_rel"), l.AbsDir, filepath.Join(l.Src, "snaps_unvisited")}
	return l
}

func (l *Lab) Wipe() {
	for _, r := range l.Roots {
		os.RemoveAll(r)
	}
}

var subNames = []string{"b", "c d", "x1", "zz", "Sub10", "Sub2", "b1", "ü", "v1", "v01", "1.0", "1.00", "v1.2", "in.json", "50%",
	// route- and path-like names: their own "/" adds levels, some of them empty, "." or ".."
	"GET /users/", "x//y", "./rel", "a/../b", "https://h/v1"}

func tName(s string) string { return strings.ReplaceAll(s, " ", "_") }

type cfgChoice struct {
	Dir, File, Ext string
}

// LabCase is one generated case.
type LabCase struct {
	Scenario  *Scenario
	Tests     []string // top-level functions with nodes
	Run       string
	Count     int
	Update    string
	CI        bool
	Sort      bool
	SkipNodes map[string]string // test -> wrapper (applied in the judged run only)
	SkipAt    map[string]int
	SkipExec  map[string]int
	SkipAfter map[string]bool // test -> its skip wrapper is called after its sub-tests were started
	Bench     bool            // the nodes are benchmarks: every process of the case runs with BenchFlags
	Flags     []string        // extra runner flags of the judged process (-test.cpu=1,2 / -test.shuffle=on / -test.parallel=1)
	Classes   vkit.Classes
	// judged-run mutations (C20): test -> call index -> changed value / Update option
	MutVal map[string]map[int]string
	MutUpd map[string]map[int]*bool
}

func hostileBody(r *rand.Rand, i int) string {
	switch r.IntN(14) {
	case 10:
		return fmt.Sprintf("first line\n---\u00a0\nlast line %d", i)
	case 11:
		return fmt.Sprintf("a\n---\u200b\n[TestA - 1]\nb %d\n\u00a0---", i)
	case 12:
		return fmt.Sprintf("[TestA - 1]\u00a0\n---\u2028\n%d", i)
	case 13:
		// a line whose last fragment at a 4 KiB / 64 KiB boundary is the terminator, followed by
		// a line that looks like the id of a test that never existed
		k := []int{4096, 65536, 65536, 131072}[r.IntN(4)]
		return fmt.Sprintf("%s---\n[TestGhost - 1]\nafter the long line %d", strings.Repeat("c", k), i)
	case 8:
		return fmt.Sprintf("100%% done %%d %%s %%%% %%20b\nnext %d", i)
	case 9:
		return fmt.Sprintf("url?q=a%%2Fb&n=%d%%", i)
	case 0:
		return fmt.Sprintf("line one %d\n\nline three", i)
	case 1:
		return fmt.Sprintf("a\n/-/-/-/\nb %d", i)
	case 2:
		return fmt.Sprintf("[TestA - 1]\nnot a header %d", i)
	case 3:
		return fmt.Sprintf("[TestZStale - 1]\n%d", i)
	case 4:
		return ""
	case 5:
		return fmt.Sprintf("\n\nleading and trailing %d\n\n", i)
	case 6:
		return fmt.Sprintf("----\n--- \n%d", i)
	default:
		return fmt.Sprintf("---\nterminator first %d", i)
	}
}

func (l *Lab) value(r *rand.Rand, api, test string, idx int, hostile bool) string {
	tag := fmt.Sprintf("%s#%d", test, idx)
	switch api {
	case "json", "sjson":
		return fmt.Sprintf(`{"who":%q,"n":%d,"list":[1,2,3]}`, tag, idx)
	case "yaml":
		if hostile && r.IntN(3) == 0 {
			return fmt.Sprintf("who: %q\n---\nsecond: doc\nblock: |\n  ---\n  x\n", tag)
		}
		return fmt.Sprintf("who: %q\nn: %d\n", tag, idx)
	}
	if hostile && r.IntN(3) == 0 {
		return hostileBody(r, idx) + tag
	}
	if r.IntN(12) == 0 {
		return "" // the empty value is a value like any other (a zero-byte standalone file, an empty body)
	}
	return "value of " + tag
}

// Gen draws a case for the root package of the default shape.
func (l *Lab) Gen(r *rand.Rand, o LabOpts) *LabCase {
	lc := &LabCase{Scenario: &Scenario{Nodes: map[string]*Node{}, Roots: l.Roots, CleanOpts: true}, Count: 1,
		SkipNodes: map[string]string{}, SkipAt: map[string]int{}, SkipExec: map[string]int{}, Classes: vkit.Classes{}}
	var tops []string
	for _, pk := range l.P.Shape.Pkgs {
		if pk.Dir != l.PkgDir {
			continue
		}
		for _, f := range pk.Files {
			tops = append(tops, f.Tests...)
		}
	}
	if o.Bench && r.IntN(6) == 0 {
		// a benchmark program: the handles are *testing.B, the functions are selected by
		// -bench (each runs once: -benchtime=1x), -run selects no test or is not given
		var bs []string
		for _, pk := range l.P.Shape.Pkgs {
			if pk.Dir == l.PkgDir {
				for _, f := range pk.Files {
					bs = append(bs, f.Bench...)
				}
			}
		}
		if len(bs) >= 2 {
			tops = bs
			lc.Bench = true
			lc.Classes["benchmark-handles"] = true
		}
	}
	r.Shuffle(len(tops), func(i, j int) { tops[i], tops[j] = tops[j], tops[i] })
	nt := 2 + r.IntN(len(tops)-1)
	tops = tops[:nt]
	sort.Strings(tops)
	cfgs := []cfgChoice{{}, {}, {}, {File: "custom"}, {File: "shared"}, {Ext: ".txt"}, {Dir: "snaps_rel"}, {Dir: l.AbsDir}, {Dir: l.AbsDir, File: "custom", Ext: ".json"},
		// directories that are not in clean form (trailing separator, `/./`, doubled separator)
		{Dir: l.AbsDir + "/"}, {Dir: l.AbsDir + "/./"}, {Dir: "snaps_rel/"}, {Ext: ".golden.txt"}, {Ext: "_v2"}, {Ext: ".snapshot"}, {File: "custom", Ext: ".snap.json"}, {Dir: strings.Replace(l.AbsDir, "/abs.snaps", "//abs.snaps", 1)}}
	var addNode func(name string, depth int)
	addNode = func(name string, depth int) {
		n := &Node{}
		lc.Scenario.Nodes[name] = n
		nc := r.IntN(4)
		if r.IntN(12) == 0 {
			nc = 5 + r.IntN(8)
			lc.Classes[">=5-calls-in-test"] = true
		}
		for i := 0; i < nc; i++ {
			api := []string{"snap", "snap", "snap", "json", "yaml", "ssnap", "sjson"}[r.IntN(7)]
			cf := cfgs[r.IntN(len(cfgs))]
			c := Call{API: api, Dir: cf.Dir, File: cf.File, Ext: cf.Ext}
			if c.Standalone() {
				// standalone files are per test (a shared Filename would share one counter between live tests)
				if c.File != "" {
					c.File = "sa_" + strings.NewReplacer("/", "_", "#", "_").Replace(name)
					lc.Classes["standalone-custom-name"] = true
				}
				lc.Classes["standalone"] = true
			}
			if c.File != "" && !c.Standalone() {
				lc.Classes["custom-filename"] = true
			}
			if c.Ext != "" {
				lc.Classes["custom-ext"] = true
			}
			if c.Dir != "" {
				lc.Classes["custom-dir"] = true
			}
			c.Val = l.value(r, api, name, i, o.Hostile)
			if r.IntN(8) == 0 {
				c.Via = []string{"helper", "closure", "subpkg", "goroutine", "direct-nontest", "direct-othertest", "nontest-via-othertest"}[r.IntN(7)]
			}
			n.Calls = append(n.Calls, c)
		}
		if o.Parallel && depth > 0 && r.IntN(3) == 0 {
			n.Parallel = true
			lc.Classes["parallel-subtests"] = true
		}
		if depth < 3 && r.IntN(2+depth) == 0 {
			ns := 1 + r.IntN(3)
			names := append([]string(nil), subNames...)
			r.Shuffle(len(names), func(i, j int) { names[i], names[j] = names[j], names[i] })
			for _, s := range names[:ns] {
				n.Subs = append(n.Subs, s)
				addNode(name+"/"+tName(s), depth+1)
			}
			lc.Classes["subtests"] = true
		}
	}
	for _, t := range tops {
		addNode(t, 0)
	}
	// (not in benchmark programs: their recording run selects no test and no fuzz target
	// (-run '^$'), so a fuzz node would first run - and append its entries, possibly behind
	// a planted half-written tail - in the judged process)
	if o.Fuzz && r.IntN(3) == 0 && !lc.Bench {
		for _, pk := range l.P.Shape.Pkgs {
			if pk.Dir == l.PkgDir {
				for _, f := range pk.Files {
					for _, z := range f.Fuzz {
						addNode(z+"/seed#0", 3)
						lc.Classes["fuzz-seed-corpus"] = true
					}
				}
			}
		}
	}
	lc.Tests = tops
	names := make([]string, 0, len(lc.Scenario.Nodes))
	for n := range lc.Scenario.Nodes {
		names = append(names, n)
	}
	sort.Strings(names)
	if o.Skips && r.IntN(2) == 0 {
		k := 1 + r.IntN(2)
		for i := 0; i < k; i++ {
			n := names[r.IntN(len(names))]
			w := []string{"Skip", "Skipf", "SkipNow", "Skip", "plain"}[r.IntN(5)]
			lc.SkipNodes[n] = w
			if r.IntN(3) == 0 {
				lc.SkipAt[n] = r.IntN(len(lc.Scenario.Nodes[n].Calls) + 1)

			}
			if w == "plain" {
				lc.Classes["plain-testing-skip"] = true
			} else {
				lc.Classes["snaps-skip"] = true
			}
		}
	}
	if o.Skips && r.IntN(3) == 0 {
		// a skipped test with descendants next to a skipped sibling whose name extends it by a
		// character that sorts below "/" (b and b-2, b.1, b#01): name-ordered lookups must still
		// find the ancestor
		var cands []string
		for _, n := range names {
			if strings.Contains(n, "/") && len(lc.Scenario.Nodes[n].Subs) > 0 {
				cands = append(cands, n)
			}
		}
		if len(cands) > 0 {
			p := cands[r.IntN(len(cands))]
			// the parent is the node that lists p among its sub-tests (a name may contain "/" itself)
			parent, leaf := "", ""
			for q, qn := range lc.Scenario.Nodes {
				for _, sn := range qn.Subs {
					if q+"/"+tName(sn) == p && len(q) > len(parent) {
						parent, leaf = q, tName(sn)
					}
				}
			}
			sib := leaf + []string{"-2", ".1", "#x", "+"}[r.IntN(4)]
			if parent != "" && lc.Scenario.Nodes[parent+"/"+sib] == nil {
				lc.Scenario.Nodes[parent].Subs = append(lc.Scenario.Nodes[parent].Subs, sib)
				lc.Scenario.Nodes[parent+"/"+sib] = &Node{Calls: []Call{{API: "snap", Val: "sibling of a skipped test"}}}
				lc.SkipNodes[p] = "Skip"
				lc.SkipNodes[parent+"/"+sib] = "SkipNow"
				delete(lc.SkipAt, p)
				lc.Classes["skipped-ancestor-with-lower-sorting-skipped-sibling"] = true
			}
		}
	}
	if o.Skips && r.IntN(4) == 0 {
		// a parent that calls a snaps skip wrapper AFTER starting its sub-tests, one of which skips too
		// (sequentially, or as a paused t.Parallel sub-test that runs once the parent returned)
		var cands []string
		for _, n := range names {
			if len(lc.Scenario.Nodes[n].Subs) > 0 && lc.SkipNodes[n] == "" {
				cands = append(cands, n)
			}
		}
		if len(cands) > 0 {
			p := cands[r.IntN(len(cands))]
			child := p + "/" + tName(lc.Scenario.Nodes[p].Subs[0])
			lc.SkipNodes[p] = []string{"Skip", "Skipf", "SkipNow"}[r.IntN(3)]
			lc.SkipAfter = map[string]bool{p: true}
			lc.SkipNodes[child] = []string{"Skip", "Skipf", "SkipNow"}[r.IntN(3)]
			delete(lc.SkipAt, child)
			if r.IntN(2) == 0 {
				lc.Scenario.Nodes[child].Parallel = true
			}
			lc.Classes["parent-skips-after-its-subtests"] = true
		}
	}
	if o.RunFilter && r.IntN(2) == 0 && !lc.Bench {
		lc.Run = l.runPattern(r, names)
		lc.Classes["run-filter"] = true
	}
	if lc.Bench && r.IntN(3) != 0 {
		lc.Run = "^$" // the usual `go test -run '^$' -bench .`
		lc.Classes["benchmarks-with-run-selecting-no-test"] = true
	}
	if o.Counts {
		lc.Count = []int{1, 1, 2, 3, 5}[r.IntN(5)]
		if lc.Count > 1 {
			lc.Classes["count>1"] = true
			// a snaps skip placed after some calls may happen in one execution only: the other
			// executions run to the end and address every entry
			ks := make([]string, 0, len(lc.SkipAt))
			for n := range lc.SkipAt {
				ks = append(ks, n)
			}
			sort.Strings(ks)
			for _, n := range ks {
				if lc.SkipNodes[n] != "plain" && lc.SkipAt[n] > 0 && r.IntN(2) == 0 {
					lc.SkipExec[n] = 1 + r.IntN(lc.Count)
					lc.Classes["skip-in-one-execution-only"] = true
				}
			}
		}
	}
	if o.Counts && !lc.Bench {
		switch r.IntN(8) {
		case 0:
			lc.Flags = []string{"-test.cpu=1,2"} // every test is executed once per listed GOMAXPROCS value
			lc.Classes["flag:-cpu=1,2"] = true
		case 1:
			lc.Flags = []string{"-test.shuffle=on"}
			lc.Classes["flag:-shuffle"] = true
		case 2:
			lc.Flags = []string{"-test.parallel=1"}
			lc.Classes["flag:-parallel=1"] = true
		}
	}
	lc.Update = []string{"", "", "clean", "true", "other"}[r.IntN(5)]
	lc.Sort = r.IntN(3) == 0
	lc.Scenario.CleanSort = lc.Sort
	if r.IntN(5) == 0 {
		lc.Scenario.CleanTwice = true
		lc.Classes["clean-called-twice"] = true
	}
	if lc.Sort {
		lc.Classes["sort"] = true
	}
	if lc.Update == "clean" || lc.Update == "true" {
		lc.Classes["clean-mode"] = true
	}
	return lc
}

func (l *Lab) runPattern(r *rand.Rand, names []string) string {
	n := names[r.IntN(len(names))]
	top := strings.SplitN(n, "/", 2)[0]
	switch r.IntN(12) {
	case 0:
		return top
	case 1:
		return top + "$"
	case 2:
		return "^" + top + "$"
	case 3:
		return n
	case 4:
		m := names[r.IntN(len(names))]
		return top + "|" + m
	case 5:
		return "1"
	case 6:
		return "A1"
	case 7:
		return "Test(A|B)$"
	case 8:
		return "/b"
	case 9:
		return top + "//."
	case 10:
		return "Test[A-B]"
	default:
		return strings.SplitN(n, "/", 2)[0] + "/" + "(b|x1)"
	}
}

// withSkips returns a copy of the scenario with the skip set applied.
// BenchFlags are the runner flags every process of a benchmark case gets.
var BenchFlags = []string{"-test.bench=.", "-test.benchtime=1x"}

// RunnerFlags: the extra flags of the judged process.
func (lc *LabCase) RunnerFlags() []string {
	if lc.Bench {
		return append(append([]string(nil), BenchFlags...), lc.Flags...)
	}
	return lc.Flags
}

func (lc *LabCase) withSkips() *Scenario {
	s := *lc.Scenario
	s.Nodes = map[string]*Node{}
	for k, n := range lc.Scenario.Nodes {
		c := *n
		if w, ok := lc.SkipNodes[k]; ok {
			c.Skip = w
			c.SkipAt = lc.SkipAt[k]
			c.SkipExec = lc.SkipExec[k]
			c.SkipAfterSubs = lc.SkipAfter[k]
		}
		if lc.MutVal[k] != nil || lc.MutUpd[k] != nil {
			c.Calls = append([]Call(nil), n.Calls...)
			for i := range c.Calls {
				if v, ok := lc.MutVal[k][i]; ok {
					c.Calls[i].Val = v
				}
				if u, ok := lc.MutUpd[k][i]; ok {
					c.Calls[i].Update = u
				}
			}
		}
		s.Nodes[k] = &c
	}
	return &s
}

// Owned is the ownership map obtained from the recording run.
type Owned struct {
	Entry    map[[2]string]string       // (path, id) -> test
	SAFile   map[string]string          // standalone path -> test
	FileOwn  map[string]map[string]bool // multi-entry path -> owning tests
	Calls    map[string][]*CallRec      // test -> its calls
	MaxCalls map[string]int             // test -> max ordinal on any file
}

func BuildOwned(a *Analysis) *Owned {
	o := &Owned{Entry: map[[2]string]string{}, SAFile: map[string]string{}, FileOwn: map[string]map[string]bool{}, Calls: map[string][]*CallRec{}, MaxCalls: map[string]int{}}
	for _, c := range a.Calls {
		o.Calls[c.Test] = append(o.Calls[c.Test], c)
		if c.K > o.MaxCalls[c.Test] {
			o.MaxCalls[c.Test] = c.K
		}
		if c.Call.Standalone() {
			o.SAFile[c.Path] = c.Test
			continue
		}
		o.Entry[[2]string{c.Path, vkit.SlotID(c.Test, c.K)}] = c.Test
		if o.FileOwn[c.Path] == nil {
			o.FileOwn[c.Path] = map[string]bool{}
		}
		o.FileOwn[c.Path][c.Test] = true
	}
	return o
}

// Seeded lists what was planted before the judged run.
type Seeded struct {
	StaleEntries  map[[2]string]bool // (path, id)
	StaleFiles    map[string]bool
	Decoys        map[string]bool // paths that must never be touched
	InScopeOdd    map[string]bool // names that contain .snap in the middle: in scope, must be reported
	LiveElsewhere int             // stale entries whose id is live in another file
	Torn          map[string]bool // files that were given an unterminated tail entry
	Loose         int             // files laid out with runs of blank lines between entries
	Links         int             // stale snapshot files that are symbolic links
}

// AllowedListings counts, per id, in how many addressed files the id is present
// before Clean without having been addressed there: that many mentions of the id
// in the obsolete list are (possibly) about those entries and not about an
// addressed or protected entry with the same id in another file.
func (l *Lab) AllowedListings(res *RunResult, a *Analysis) map[string]int {
	addr := map[[2]string]bool{}
	files := map[string]bool{}
	for _, cr := range a.Calls {
		if !cr.Call.Standalone() {
			addr[[2]string{cr.Path, vkit.SlotID(cr.Test, cr.K)}] = true
			files[cr.Path] = true
		}
	}
	out := map[string]int{}
	for f := range files {
		pre, _ := l.preEntries(res, f)
		for _, e := range pre {
			if !addr[[2]string{f, e.ID}] {
				out[e.ID]++
			}
		}
	}
	return out
}

func countOf(xs []string, x string) int {
	n := 0
	for _, y := range xs {
		if y == x {
			n++
		}
	}
	return n
}

// Seed plants stale items and decoys, and optionally permutes entry order.
func (l *Lab) Seed(r *rand.Rand, own *Owned, o LabOpts) *Seeded {
	sd := &Seeded{StaleEntries: map[[2]string]bool{}, StaleFiles: map[string]bool{}, Decoys: map[string]bool{}, InScopeOdd: map[string]bool{}, Torn: map[string]bool{}}
	files := make([]string, 0, len(own.FileOwn))
	for f := range own.FileOwn {
		files = append(files, f)
	}
	sort.Strings(files)
	dirs := map[string]bool{}
	for _, f := range files {
		dirs[filepath.Dir(f)] = true
	}
	for f := range own.SAFile {
		dirs[filepath.Dir(f)] = true
	}
	for _, f := range files {
		ents, torn := vkit.ReadSnapFile(f)
		if len(torn) > 0 {
			continue
		}
		if o.Stale && r.IntN(2) == 0 {
			k := 1 + r.IntN(3)
			for i := 0; i < k; i++ {
				var id string
				switch r.IntN(6) {
				case 0:
					id = fmt.Sprintf("TestZStale - %d", 1+r.IntN(3))
				case 1:
					id = fmt.Sprintf("TestZStale/sub_%d - 1", r.IntN(3))
				case 2:
					// an ordinal beyond what a live test of this file uses
					var ts []string
					for t := range own.FileOwn[f] {
						ts = append(ts, t)
					}
					sort.Strings(ts)
					t := ts[r.IntN(len(ts))]
					id = vkit.SlotID(t, own.MaxCalls[t]+1+r.IntN(2))
					if r.IntN(4) == 0 && own.MaxCalls[t] >= 1 {
						// the number of a live slot spelled with a leading zero: never addressed (ids are
						// compared as text), so it is stale
						id = fmt.Sprintf("%s - 0%d", t, 1+r.IntN(own.MaxCalls[t]))
					}
				case 3:
					id = fmt.Sprintf("TestAZ - %d", 1+r.IntN(2)) // sibling-prefix name of TestA that is not in the program
					if r.IntN(4) == 0 {
						// the id a handle without a name leaves behind (testing.Benchmark's anonymous *testing.B)
						id = fmt.Sprintf(" - %d", 1+r.IntN(2))
					}
				default:
					// an id that is LIVE in another file: the test takes more snapshots there than in this file
					// (one test writing to two files and dropping its N-th snapshot in only one of them)
					id = fmt.Sprintf("TestZStale - %d", 4+r.IntN(3))
					var cands []string
					for k, t := range own.Entry {
						if k[0] != f && own.FileOwn[f][t] && own.Entry[[2]string{f, k[1]}] == "" {
							cands = append(cands, k[1])
						}
					}
					if len(cands) > 0 {
						sort.Strings(cands)
						id = cands[r.IntN(len(cands))]
						sd.LiveElsewhere++
					}
				}
				if sd.StaleEntries[[2]string{f, id}] || own.Entry[[2]string{f, id}] != "" {
					continue
				}
				body := fmt.Sprintf("stale %d", i)
				if o.Hostile {
					body = hostileBody(r, i) + "stale"
					if r.IntN(4) == 0 && len(ents) > 0 {
						// a terminator-like line with surrounding blanks followed by the header of an entry of this file
						live := ents[r.IntN(len(ents))].ID
						body = "stale value\n" + []string{"--- ", " ---", "---\t", "  ---  "}[r.IntN(4)] + "\n[" + live + "]\nnot the kept value"
					}
				}
				pos := r.IntN(len(ents) + 1)
				ents = append(ents[:pos], append([]vkit.SnapEntry{{ID: id, Body: vkit.Escape(body)}}, ents[pos:]...)...)
				sd.StaleEntries[[2]string{f, id}] = true
			}
		}
		if o.Shuffle && r.IntN(2) == 0 {
			r.Shuffle(len(ents), func(i, j int) { ents[i], ents[j] = ents[j], ents[i] })
		}
		content := vkit.RenderSnapFile(ents)
		if r.IntN(5) == 0 {
			// hand-edited / merged layout: runs of blank lines between the entries and at both
			// ends of the file (the reader skips them; a rewrite produces the shorter canonical form)
			content = vkit.RenderSnapFileLoose(r, ents)
			sd.Loose++
		}
		if o.TornTail && r.IntN(3) == 0 {
			// a previous run died while appending: header and part of a body, no terminator
			content += "\n[TestZTorn - 1]\nhalf written\nbody\n"
			sd.Torn[f] = true
		}
		os.WriteFile(f, []byte(content), 0o644)
	}
	if o.Stale {
		ds := make([]string, 0, len(dirs))
		for d := range dirs {
			ds = append(ds, d)
		}
		sort.Strings(ds)
		for _, d := range ds {
			if r.IntN(2) == 0 {
				p := filepath.Join(d, fmt.Sprintf("TestZStale_%d.snap", 1+r.IntN(2)))
				os.WriteFile(p, []byte("stale standalone"), 0o644)
				sd.StaleFiles[p] = true
			}
			if r.IntN(3) == 0 {
				p := filepath.Join(d, "zstale_test.snap")
				os.WriteFile(p, []byte(vkit.RenderSnapFile([]vkit.SnapEntry{{ID: "TestZStale - 1", Body: "x"}})), 0o644)
				sd.StaleFiles[p] = true
			}
			if r.IntN(3) == 0 {
				p := filepath.Join(d, "odd.snapx")
				os.WriteFile(p, []byte("contains .snap in the middle of its name"), 0o644)
				sd.StaleFiles[p] = true
				sd.InScopeOdd[p] = true
			}
			if r.IntN(4) == 0 {
				// a stale snapshot file that is a symbolic link (shared between packages, or left
				// behind): a directory entry like any other; its target lies outside every
				// visited directory and must stay as it is
				un := filepath.Join(l.Src, "snaps_unvisited")
				os.MkdirAll(un, 0o755)
				target := filepath.Join(un, "linked_elsewhere.snap")
				os.WriteFile(target, []byte(vkit.RenderSnapFile([]vkit.SnapEntry{{ID: "TestZStale - 1", Body: "behind a link"}})), 0o644)
				sd.Decoys[target] = true
				p := filepath.Join(d, "zlinked_test.snap")
				os.Remove(p)
				if os.Symlink(target, p) == nil {
					sd.StaleFiles[p] = true
					sd.Links++
				}
			}
			for _, dn := range []string{"notes.txt", "snap.bak", "README"} {
				if r.IntN(2) == 0 {
					p := filepath.Join(d, dn)
					os.WriteFile(p, []byte("decoy "+dn), 0o644)
					sd.Decoys[p] = true
				}
			}
			if r.IntN(2) == 0 {
				sub := filepath.Join(d, "old")
				os.MkdirAll(sub, 0o755)
				p := filepath.Join(sub, "o_test.snap")
				os.WriteFile(p, []byte(vkit.RenderSnapFile([]vkit.SnapEntry{{ID: "TestZStale - 1", Body: "in sub-directory"}})), 0o644)
				sd.Decoys[p] = true
			}
		}
		un := filepath.Join(l.Src, "snaps_unvisited")
		os.MkdirAll(un, 0o755)
		p := filepath.Join(un, "z_test.snap")
		os.WriteFile(p, []byte(vkit.RenderSnapFile([]vkit.SnapEntry{{ID: "TestZStale - 1", Body: "unvisited"}})), 0o644)
		sd.Decoys[p] = true
	}
	return sd
}

// relIn resolves an absolute path to (root, rel).
func (l *Lab) relIn(p string) (string, string) {
	for _, r := range l.Roots {
		if strings.HasPrefix(p, r+"/") {
			return r, strings.TrimPrefix(p, r+"/")
		}
	}
	return "", p
}

func (l *Lab) written(res *RunResult, p string) bool {
	root, rel := l.relIn(p)
	return vkit.Written(res.Pre[root], res.Post[root], rel)
}

func (l *Lab) existsPost(res *RunResult, p string) bool {
	root, rel := l.relIn(p)
	_, ok := res.Post[root][rel]
	return ok
}

func (l *Lab) existsPre(res *RunResult, p string) bool {
	root, rel := l.relIn(p)
	_, ok := res.Pre[root][rel]
	return ok
}

func (l *Lab) preEntries(res *RunResult, p string) ([]vkit.SnapEntry, []string) {
	root, rel := l.relIn(p)
	c, ok := res.PreFiles[root][rel]
	if !ok {
		return nil, nil
	}
	return vkit.ParseSnapFile(c)
}

// Protection classifies, for the judged run, which tests did not run for one of
// the two stated reasons.
type Protection struct {
	Reason map[string]string // test -> "skip" | "run-filter"
}

func ancestorOrSelf(m map[string]bool, test string) (string, bool) {
	parts := strings.Split(test, "/")
	for i := len(parts); i >= 1; i-- {
		p := strings.Join(parts[:i], "/")
		if m[p] {
			return p, true
		}
	}
	return "", false
}

func ComputeProtection(rec, run *Analysis, lc *LabCase) *Protection {
	p := &Protection{Reason: map[string]string{}}
	snapsSkipped := map[string]bool{}
	plainSkipped := map[string]bool{}
	for t, w := range lc.SkipNodes {
		// only skips that actually happened in the judged run count
		if w == "plain" {
			plainSkipped[t] = true
		} else if run.Skipped[t] > 0 {
			snapsSkipped[t] = true
		}
	}
	for t := range rec.Entered {
		if _, ok := ancestorOrSelf(snapsSkipped, t); ok {
			p.Reason[t] = "skip"
			continue
		}
		if run.Entered[t] == 0 && lc.Run != "" {
			if _, plain := ancestorOrSelf(plainSkipped, t); !plain {
				p.Reason[t] = "run-filter"
			}
		}
	}
	return p
}

// goSnapsRunEmulation is what the library's documented -run emulation answers
// for an entry id (used only to name the known-finding class, never as oracle).
func goSnapsRunEmulation(pattern, id string) bool {
	m, _ := regexp.MatchString(pattern, id)
	return m
}
