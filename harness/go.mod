module verifharness

go 1.22

require (
	github.com/anishathalye/porcupine v1.3.0
	github.com/gkampitakis/go-snaps v0.0.0
	github.com/goccy/go-yaml v1.15.13
	github.com/kr/pretty v0.3.1
	github.com/maruel/natural v1.1.1
	github.com/tidwall/pretty v1.2.1
)

require (
	github.com/gkampitakis/ciinfo v0.3.1 // indirect
	github.com/gkampitakis/go-diff v1.3.2 // indirect
	github.com/kr/text v0.2.0 // indirect
	github.com/rogpeppe/go-internal v1.13.1 // indirect
	github.com/tidwall/gjson v1.18.0 // indirect
	github.com/tidwall/match v1.1.1 // indirect
	github.com/tidwall/sjson v1.2.5 // indirect
)

replace github.com/gkampitakis/go-snaps => /repo
