package enga

import (
	"encoding/json"
	"fmt"
	"math/rand/v2"
	"strings"

	"verifharness/vkit"
)

func init() { register("C02", checkC02) }

var c02APIs = []string{"snap", "snap", "snap", "json", "yaml", "ssnap", "ssnap", "sjson"}

// updateOffModes are the ways updating is disabled (C05 table).
type offMode struct {
	Name string
	Mode vkit.Mode
	Upd  *bool
}

func offModes() []offMode {
	f := false
	return []offMode{
		{"default", vkit.Mode{}, nil},
		{"Update(false)", vkit.Mode{}, &f},
		{"Update(false)+UPDATE_SNAPS=true", vkit.Mode{UpdateVar: "true"}, &f},
		{"CI", vkit.Mode{CI: true}, nil},
		{"CI+UPDATE_SNAPS=true", vkit.Mode{CI: true, UpdateVar: "true"}, nil},
		{"UPDATE_SNAPS=clean", vkit.Mode{UpdateVar: "clean"}, nil},
		{"UPDATE_SNAPS=other", vkit.Mode{UpdateVar: "yes"}, nil},
	}
}

// jsonPair derives a second document whose canonical text differs.
func jsonPair(r *rand.Rand, d *vkit.JNode) (*vkit.JNode, string) {
	e := d.Clone()
	ps := e.Paths()
	if len(ps) == 0 || r.IntN(6) == 0 {
		// change the root
		switch e.Kind {
		case "str":
			e.S += pick2(r, " ", "x", "\t")
			return e, "root-string-edit"
		case "num":
			if e.S == "7" {
				e.S = "8"
			} else {
				e.S = "7"
			}
			return e, "root-number"
		case "obj":
			e.Keys = append(e.Keys, "zz_new")
			e.Vals = append(e.Vals, &vkit.JNode{Kind: "null"})
			return e, "add-member"
		case "arr":
			e.Vals = append(e.Vals, &vkit.JNode{Kind: "num", S: "0"})
			return e, "add-element"
		default:
			return &vkit.JNode{Kind: "str", S: "was-" + e.Kind + e.S}, "root-kind"
		}
	}
	p := ps[r.IntN(len(ps))]
	n := e.At(p)
	switch n.Kind {
	case "str":
		n.S += pick2(r, " ", "x", " ")
		return e, "leaf-string-edit"
	case "num":
		if n.S == "7" {
			n.S = "8"
		} else {
			n.S = "7"
		}
		return e, "leaf-number"
	case "bool":
		if n.S == "true" {
			n.S = "false"
		} else {
			n.S = "true"
		}
		return e, "leaf-bool"
	case "null":
		e.Set(p, &vkit.JNode{Kind: "str", S: "null"})
		return e, "null-to-string"
	case "arr":
		n.Vals = append(n.Vals, &vkit.JNode{Kind: "null"})
		return e, "add-element"
	default:
		n.Keys = append(n.Keys, "zz_new")
		n.Vals = append(n.Vals, &vkit.JNode{Kind: "bool", S: "true"})
		return e, "add-member"
	}
}

func pick2[T any](r *rand.Rand, xs ...T) T { return xs[r.IntN(len(xs))] }

// utf8Class is the known-findings predicate of P-utf8: colours on, both
// formatted texts single-line, and equal as rune sequences (they differ only in
// bytes that are not valid UTF-8).
func utf8Class(noColor bool, a, b string) string {
	single := func(s string) bool { i := strings.Index(s, "\n"); return i == -1 || i == len(s)-1 }
	if !noColor && a != "" && b != "" && single(a) && single(b) && a != b && string([]rune(a)) == string([]rune(b)) {
		return "invalid-utf8-only-difference-inline-diff"
	}
	return ""
}

// checkC02: record `stored`, then call with `received` whose formatted text
// differs, update disabled. Refuted by anything but exactly one Error, zero Log,
// and an untouched directory. The converse (same value passes) is checked on the
// same slot so that an oracle that always expects an error cannot pass.
func checkC02(c *vkit.Ctx) {
	c.P.Rule = "case = (api, stored, received, colour, update-disabled mode); received is derived from stored by one small hostile edit (flip/insert/delete byte, trailing/leading newline, `---` <-> `/-/-/-/`, invalid-UTF-8 byte only, whitespace only, duplicate/delete/swap line; for JSON one leaf/member edit) plus 8 (thorough 96) pairs of 1-8 MiB with a one-byte change at the end, behind the last 4 MiB boundary, near the end or anywhere; and the premise `formatted texts differ` is asserted with the trusted formatters; non-trivial = every judged pair (they all differ by a minimal edit); distinct by hash(api, formatted stored, formatted received, colour)"
	c.P.Assumptions = []string{"kr/pretty and tidwall/pretty are the formatters (trusted); the pair is judged only when their outputs differ"}
	modes := offModes()
	n := c.N(150000, 4000000)
	for i := 0; i < n; i++ {
		if !c.Mine(i) {
			continue
		}
		r := c.Rand("pair", i)
		api := c02APIs[r.IntN(len(c02APIs))]
		om := modes[r.IntN(len(modes))]
		noColor := r.IntN(2) == 0
		var stored, received Val
		var edit string
		switch api {
		case "snap", "ssnap":
			s, _ := vkit.Text(r, vkit.TextOpts{CREOL: api == "ssnap", NoHuge: i%50 != 0, Headers: []string{"[TestP - 1]", "[TestP - 2]"}})
			if r.IntN(3) == 0 {
				// single-line values take the inline-highlight path when colours are on
				s, _ = vkit.Line(r, vkit.TextOpts{NoHuge: true})
			}
			t, e := vkit.Pair(r, s, api == "ssnap")
			stored, received, edit = Val{Kind: "str", S: s}, Val{Kind: "str", S: t}, e
		case "json", "sjson":
			d := vkit.JSONDoc(r, 3, vkit.Classes{})
			e, ed := jsonPair(r, d)
			stored, received, edit = Val{Kind: "json", S: d.Render(r, true)}, Val{Kind: "json", S: e.Render(r, true)}, ed
		case "yaml":
			ok := false
			for tries := 0; tries < 30 && !ok; tries++ {
				s := vkit.YAMLDoc(r, []string{"[TestP - 1]"}, vkit.Classes{})
				if !yamlValid(s) {
					continue
				}
				t, e := vkit.Pair(r, s, false)
				if yamlValid(t) {
					stored, received, edit, ok = Val{Kind: "yaml", S: s}, Val{Kind: "yaml", S: t}, e, true
				}
			}
			if !ok {
				continue
			}
		}
		in := map[string]any{"api": api, "stored": stored.S, "received": received.S, "edit": edit, "mode": om.Name, "no_color": noColor}
		c.Guard(in, func() { runC02(c, api, stored, received, edit, om, noColor, in) })
	}
	// values of several MiB (generated artefacts kept as standalone snapshots, large entries):
	// a single byte changes near the end, near a 1/4/8 MiB boundary or in the middle
	nb := c.N(8, 96)
	for j := 0; j < nb; j++ {
		i := 90000000 + j
		if !c.Mine(i) {
			continue
		}
		r := c.Rand("big", j)
		api := []string{"ssnap", "ssnap", "sjson", "snap"}[r.IntN(4)]
		size := []int{1<<20 + 5, 4<<20 + 1, 4<<20 + 12345, 5<<20 + 7, 8<<20 + 100, 8 << 20, 3<<20 + 17}[(j+j/7)%7]
		var sb strings.Builder
		if api == "sjson" {
			sb.WriteString("[")
			for k := 0; sb.Len() < size; k++ {
				if k > 0 {
					sb.WriteString(",")
				}
				fmt.Fprintf(&sb, `"element %08d of a large generated document"`, k)
			}
			sb.WriteString("]")
		} else {
			for k := 0; sb.Len() < size; k++ {
				fmt.Fprintf(&sb, "line %08d of a large generated artefact, sixty-four bytes\n", k)
			}
		}
		s := sb.String()
		b := []byte(s)
		var at int
		switch j % 4 {
		case 0:
			at = len(b) - 3 // the last digit / letter
		case 1:
			at = (len(b) / (4 << 20)) * (4 << 20) // first byte after the last full 4 MiB
			if at >= len(b)-2 || at == 0 {
				at = len(b) / 2
			}
		case 2:
			at = len(b) - 1 - r.IntN(4096)
		default:
			at = r.IntN(len(b))
		}
		for b[at] < 'a' || b[at] > 'z' {
			at--
		}
		if b[at] == 'q' {
			b[at] = 'j'
		} else {
			b[at] = 'q'
		}
		kind := "str"
		if api == "sjson" {
			kind = "json"
		}
		om := modes[r.IntN(len(modes))]
		edit := fmt.Sprintf("one-byte-change-at-%d-of-%d", at, len(b))
		in := map[string]any{"api": api, "size": len(b), "edit": edit, "mode": om.Name}
		stored, received := Val{Kind: kind, S: s, Form: "string"}, Val{Kind: kind, S: string(b), Form: "string"}
		c.Guard(in, func() { runC02(c, api, stored, received, edit, om, true, in) })
		c.Count("pairs_of_several_MiB", 1)
	}
}

func runC02(c *vkit.Ctx, api string, stored, received Val, edit string, om offMode, noColor bool, in map[string]any) {
	opS := Op{API: api, Test: "TestP", File: "pairs", Val: stored}
	opR := Op{API: api, Test: "TestP", File: "pairs", Val: received, Upd: om.Upd}
	if opS.standalone() {
		opS.File, opR.File = "", ""
	}
	fs, _ := Formatted(opS)
	fr, _ := Formatted(opR)
	if fs == fr {
		c.Count("premise_formatted_equal_skipped", 1)
		return
	}
	s := NewSess("c02")
	defer s.Close()
	// an unrelated neighbour entry so that "modifies nothing" has something to damage
	s.Seed(s.MultiPath(Op{File: "pairs"}), []vkit.Slot{{ID: "TestOther - 1", Text: "neighbour", Raw: "neighbour"}})

	s.NewProcess(vkit.Mode{}, noColor)
	t := vkit.NewT("TestP")
	res := s.Step(t, opS, vkit.Mode{})
	s.EndExec(t)
	// premise: the stored value was recorded (outcome `added`). Whether it is stored
	// faithfully is NOT part of the premise - storage that conflates two values is
	// exactly what the second call must expose.
	if res.Got != vkit.Added {
		c.Count("premise_record_failed", 1)
		c.Note("record step not judged: " + fmt.Sprint(res.Problems))
		return
	}

	s.NewProcess(om.Mode, noColor)
	t = vkit.NewT("TestP")
	res = s.Step(t, opR, om.Mode)
	s.EndExec(t)
	c.Count("judged_pairs", 1)
	c.Count("edit:"+edit, 1)
	c.Count("api:"+api, 1)
	c.Count("mode:"+om.Name, 1)
	c.Count("outcome_"+res.Got, 1)
	if noColor {
		c.Count("colour_off", 1)
	} else {
		c.Count("colour_on", 1)
	}
	for _, p := range res.Problems {
		class := p.Class
		if class == "" && p.Kind == "silent-pass" {
			class = utf8Class(noColor, fs, fr)
		}
		c.Violate(p.Kind, class, fmt.Sprintf("%s edit=%s mode=%s nocolor=%v: %s", api, edit, om.Name, noColor, p.Detail), in)
	}
	// converse: the stored value itself still passes and writes nothing
	s.NewProcess(om.Mode, noColor)
	t = vkit.NewT("TestP")
	opS.Upd = om.Upd
	res = s.Step(t, opS, om.Mode)
	s.EndExec(t)
	c.Count("converse_calls", 1)
	if len(res.Problems) > 0 {
		c.Count("converse_not_passed", 1)
		// a false failure is C01's concern; it is counted, and reported only as a note here
		c.Note("converse (same value) did not pass - C01 material: " + res.Problems[0].Detail)
	}
	b, _ := json.Marshal([]any{api, fs, fr, noColor})
	c.Case(vkit.Hash(string(b)), true)
	if c.P.Evaluations%97 == 1 {
		c.Sample(map[string]any{"api": api, "stored": vkit.Clip(stored.S, 200), "received": vkit.Clip(received.S, 200), "edit": edit, "mode": om.Name, "no_color": noColor, "outcome": res.Got})
	}
}
