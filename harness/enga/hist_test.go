package enga

import (
	"fmt"
	"github.com/gkampitakis/go-snaps/snaps"
	"math/rand/v2"
	"strings"

	goyaml "github.com/goccy/go-yaml"
	krpretty "github.com/kr/pretty"

	"verifharness/vkit"
)

// TestPlan is the fixed list of calls one test makes on every execution.
type TestPlan struct {
	Name  string `json:"name"`
	Ops   []Op   `json:"ops"`
	Execs int    `json:"execs"`
	// SkipAt > 0: every execution calls snaps.Skip after its first SkipAt calls and ends
	// there (the remaining calls are not made)
	SkipAt int `json:"skip_at,omitempty"`
	// CleanupAt > 0: before its CleanupAt-th call (or, when CleanupAt == len(Ops)+1, after its
	// last one) the test registers a t.Cleanup callback that makes the CleanupOps calls. They
	// address only files the test does not call into after that point, so they continue the
	// ordinals of the body (the library's own resets for those files run after the callback).
	CleanupAt  int  `json:"cleanup_at,omitempty"`
	CleanupOps []Op `json:"cleanup_ops,omitempty"`
}

// History is a generated program: tests, their calls, and pre-existing content.
type History struct {
	Tests      []TestPlan             `json:"tests"`
	Pre        map[string][]vkit.Slot `json:"pre,omitempty"`  // file option -> entries present before the first run
	Post       map[string][]vkit.Slot `json:"post,omitempty"` // file option -> entries other tests append after the recording run
	Interleave bool                   `json:"interleave"`
	Classes    vkit.Classes           `json:"-"`
	ClassList  []string               `json:"classes"`
}

type HistOpts struct {
	APIs       []string
	MaxTests   int
	MaxOps     int
	FailOps    bool // allow calls that fail (invalid document / failing matcher) in the middle of a test
	NoHuge     bool
	NoHeader   bool
	Standalone bool
	Skips      bool // some tests call snaps.Skip part-way through
	Cleanups   bool // some tests make Match* calls from a t.Cleanup callback registered part-way
	Twins      bool // may add a second live test with the SAME name on other files (package p and p_test both declaring TestX)
}

func yamlValid(s string) bool {
	var out any
	return goyaml.Unmarshal([]byte(s), &out) == nil
}

// genValue draws a value for api.
func genValue(r *rand.Rand, api string, headers []string, o HistOpts, cl vkit.Classes) Val {
	switch api {
	case "snap":
		if r.IntN(6) == 0 {
			v := goVal(r)
			if krpretty.Sprint(v.G) != v.S {
				panic("premise: kr/pretty not deterministic for generated value")
			}
			cl["go-value"] = true
			return v
		}
		s, c := vkit.Text(r, vkit.TextOpts{Headers: headers, NoHuge: o.NoHuge, NoHeader: o.NoHeader})
		for k := range c {
			cl[k] = true
		}
		if r.IntN(7) == 0 {
			return textCarrier(r, s, cl)
		}
		return Val{Kind: "str", S: s}
	case "ssnap":
		s, c := vkit.Text(r, vkit.TextOpts{Headers: headers, NoHuge: o.NoHuge, CREOL: true})
		for k := range c {
			cl[k] = true
		}
		if r.IntN(7) == 0 {
			return textCarrier(r, s, cl)
		}
		return Val{Kind: "str", S: s}
	case "json", "sjson":
		c := vkit.Classes{}
		d := vkit.JSONDoc(r, 3, c)
		form := "string"
		if r.IntN(3) == 0 {
			form = "bytes"
		}
		return Val{Kind: "json", S: d.Render(r, false), Form: form}
	case "yaml":
		for {
			c := vkit.Classes{}
			hs := headers
			if o.NoHeader {
				hs = nil
			}
			s := vkit.YAMLDoc(r, hs, c)
			if !yamlValid(s) {
				continue
			}
			for k := range c {
				cl["yaml-"+k] = true
			}
			form := "string"
			if r.IntN(3) == 0 {
				form = "bytes"
			}
			return Val{Kind: "yaml", S: s, Form: form}
		}
	}
	panic(api)
}

// GenHistory draws a history.
func GenHistory(r *rand.Rand, o HistOpts) History {
	h := History{Classes: vkit.Classes{}, Pre: map[string][]vkit.Slot{}}
	if o.MaxTests == 0 {
		o.MaxTests = 6
	}
	if o.MaxOps == 0 {
		o.MaxOps = 14
	}
	files := []string{"f1"}
	switch r.IntN(4) {
	case 0:
		files = []string{"f1", "f2"}
	case 1:
		files = []string{"f1", "", "f3"}
	}
	nt := 1 + r.IntN(o.MaxTests)
	names := append([]string(nil), vkit.ConfusableNames...)
	r.Shuffle(len(names), func(i, j int) { names[i], names[j] = names[j], names[i] })
	// two names that differ only in "/" vs "_" share their standalone files by
	// design (C11: "/" is replaced by "_"); such a program legitimately overwrites
	// its own snapshots, so it is not generated.
	{
		seen := map[string]bool{}
		var uniq []string
		for _, n := range names {
			k := strings.ReplaceAll(n, "/", "_")
			if !seen[k] {
				seen[k] = true
				uniq = append(uniq, n)
			}
		}
		names = uniq
	}
	if nt > len(names) {
		nt = len(names)
	}
	names = names[:nt]

	// plan shapes first so header lines of every addressable slot are known to the text generator
	type shape struct{ apis, files []string }
	shapes := make([]shape, nt)
	headers := map[string][]string{}
	for i := range shapes {
		var n int
		switch x := r.IntN(10); {
		case x < 1:
			n = 0
		case x < 7:
			n = 1 + r.IntN(4)
		case x < 9:
			n = 5 + r.IntN(5)
		default:
			n = 10 + r.IntN(o.MaxOps-9)
		}
		if r.IntN(150) == 0 {
			n = 99 + r.IntN(14) // ordinals crossing 100: `[T - 1]`, `[T - 10]` and `[T - 100]` are prefixes of one another
			h.Classes["ordinals>=100"] = true
		}
		cnt := map[string]int{}
		for j := 0; j < n; j++ {
			api := o.APIs[r.IntN(len(o.APIs))]
			f := files[r.IntN(len(files))]
			shapes[i].apis = append(shapes[i].apis, api)
			shapes[i].files = append(shapes[i].files, f)
			if api != "ssnap" && api != "sjson" {
				cnt[f]++
				headers[f] = append(headers[f], "["+vkit.SlotID(names[i], cnt[f])+"]")
			}
		}
		if n >= 10 {
			h.Classes["ordinals>=10"] = true
		}
	}
	// pre-existing content: entries of tests that are not part of the program
	if r.IntN(3) == 0 {
		f := files[r.IntN(len(files))]
		n := 1 + r.IntN(3)
		if r.IntN(3) == 0 {
			// a file of several KiB to tens of KiB: the program's entries land at arbitrary
			// offsets relative to the 4096-byte chunks a buffered reader works in
			n = 30 + r.IntN(300)
			h.Classes["pre-existing-content-many-KiB"] = true
			if r.IntN(2) == 0 {
				// and several KiB that follow the program's entries
				h.Post = map[string][]vkit.Slot{}
				for j, m := 0, 30+r.IntN(120); j < m; j++ {
					t, _ := vkit.Text(r, vkit.TextOpts{NoHuge: true, NoHeader: true})
					h.Post[f] = append(h.Post[f], vkit.Slot{ID: vkit.SlotID("TestLater", j+1), Text: t, Raw: vkit.Escape(t)})
				}
				h.Classes["content-after-the-program's-entries"] = true
			}
		}
		for j := 0; j < n; j++ {
			id := vkit.SlotID("TestOld", j+1)
			headers[f] = append(headers[f], "["+id+"]")
		}
		for j := 0; j < n; j++ {
			s, _ := vkit.Text(r, vkit.TextOpts{Headers: headers[f], NoHuge: true, NoHeader: o.NoHeader})
			h.Pre[f] = append(h.Pre[f], vkit.Slot{ID: vkit.SlotID("TestOld", j+1), Text: s, Raw: vkit.Escape(s)})
		}
		h.Classes["pre-existing-content"] = true
	}
	apisSeen := map[string]bool{}
	for i, sh := range shapes {
		tp := TestPlan{Name: names[i], Execs: 1}
		if r.IntN(4) == 0 {
			tp.Execs = 2 + r.IntN(2)
			h.Classes["repeated-execution"] = true
		}
		for j := range sh.apis {
			api, f := sh.apis[j], sh.files[j]
			op := Op{API: api, Test: names[i], File: f}
			if api == "ssnap" || api == "sjson" {
				op.File = "" // standalone files are named after the test: one counter per test
			}
			op.Val = genValue(r, api, headers[f], o, h.Classes)
			if api == "snap" && r.IntN(25) == 0 {
				op.Empty = true
				h.Classes["MatchSnapshot-without-values"] = true
			}
			if api == "snap" && r.IntN(8) == 0 {
				op.Multi = []Val{genValue(r, api, headers[f], HistOpts{NoHuge: true, NoHeader: o.NoHeader}, h.Classes)}
				h.Classes["multi-value-call"] = true
			}
			if o.FailOps && r.IntN(7) == 0 {
				valid := op.Val
				switch api {
				case "json", "sjson":
					switch r.IntN(3) {
					case 0:
						s, _ := vkit.InvalidJSON(r)
						op.Val = Val{Kind: "json", S: s, Form: "string"}
						op.Fail = "invalid"
					case 1:
						// a Go value whose own marshaller fails
						op.Val = Val{Kind: "marshal-error", S: "sensor offline"}
						op.Fail = "invalid"
						h.Classes["go-value-whose-marshaller-fails"] = true
					default:
						op.Fail = "matcher"
					}
					h.Classes["failing-call-midway"] = true
				case "yaml":
					s, _ := vkit.InvalidYAML(r)
					if !yamlValid(s) {
						op.Val = Val{Kind: "yaml", S: s, Form: "string"}
						op.Fail = "invalid"
						h.Classes["failing-call-midway"] = true
					}
				}
				if op.Fail != "" && r.IntN(2) == 0 {
					// rejected in one execution only (a flaky input): the other executions of the
					// test make the same call with a valid value
					op.FailOnlyExec = 1 + r.IntN(2)
					op.AltVal = &valid
					h.Classes["call-rejected-in-one-execution-only"] = true
				}
			}
			apisSeen[api] = true
			tp.Ops = append(tp.Ops, op)
		}
		h.Tests = append(h.Tests, tp)
	}
	if len(apisSeen) > 1 {
		h.Classes["mixed-apis"] = true
	}
	for i := range names {
		for j := range names {
			if i != j && strings.HasPrefix(names[j], names[i]) {
				h.Classes["prefix-related-names"] = true
			}
		}
	}
	if nt > 1 && r.IntN(2) == 0 {
		h.Interleave = true
		h.Classes["interleaved-tests"] = true
	}
	if r.IntN(10) == 0 {
		// a test that takes standalone snapshots (named after the test: T_1.snap, T_2.snap ...)
		// and keeps its entries in a file called `T_%d` - the standalone name pattern, literally
		for i := range h.Tests {
			tp := &h.Tests[i]
			sa, ent := false, ""
			for _, op := range tp.Ops {
				if op.standalone() && op.Ext == "" {
					sa = true
				} else if !op.standalone() && ent == "" {
					ent = op.File
				}
			}
			if sa && ent != "" {
				lit := strings.ReplaceAll(tp.Name, "/", "_") + "_%d"
				for j := range tp.Ops {
					if !tp.Ops[j].standalone() && tp.Ops[j].File == ent {
						tp.Ops[j].File = lit
					}
				}
				if tp.Execs < 2 {
					tp.Execs = 2
				}
				h.Classes["entry-file-named-like-the-standalone-pattern"] = true
				h.Classes["repeated-execution"] = true
				break
			}
		}
	}
	if r.IntN(12) == 0 {
		// two (file, test) pairs whose path and name run into one another when written
		// back to back: x.snap + TestTestA and x.snapTest + TestA (Ext("Test"))
		for i := range h.Tests {
			tp := &h.Tests[i]
			if strings.Contains(tp.Name, "/") {
				continue
			}
			f, n := "", 0
			for _, op := range tp.Ops {
				if !op.standalone() && op.Ext == "" && !strings.Contains(op.File, "%") {
					if f == "" {
						f = op.File
					}
					if op.File == f {
						n++
					}
				}
			}
			if n == 0 {
				continue
			}
			other := TestPlan{Name: "Test" + tp.Name, Execs: 1}
			for j := range tp.Ops {
				if !tp.Ops[j].standalone() && tp.Ops[j].File == f && tp.Ops[j].Ext == "" {
					if len(other.Ops) < 2 && !tp.Ops[j].Empty && tp.Ops[j].Fail == "" {
						cp := tp.Ops[j]
						cp.Test = other.Name
						other.Ops = append(other.Ops, cp)
					}
					tp.Ops[j].Ext = "Test"
				}
			}
			if len(other.Ops) == 0 {
				break
			}
			if tp.Execs < 2 {
				tp.Execs = 2
			}
			h.Tests = append([]TestPlan{other}, h.Tests...)
			h.Classes["path-and-name-concatenations-collide"] = true
			h.Classes["repeated-execution"] = true
			break
		}
	}
	if o.Skips {
		for i := range h.Tests {
			if n := len(h.Tests[i].Ops); n >= 1 && r.IntN(6) == 0 {
				h.Tests[i].SkipAt = 1 + r.IntN(n)
				h.Tests[i].Ops = h.Tests[i].Ops[:h.Tests[i].SkipAt]
				h.Classes["test-calls-snaps.Skip-after-some-calls"] = true
			}
		}
	}
	if o.Cleanups {
		for i := range h.Tests {
			tp := &h.Tests[i]
			if tp.SkipAt > 0 || len(tp.Ops) < 2 || r.IntN(5) != 0 {
				continue
			}
			p := 1 + r.IntN(len(tp.Ops)) // the callback is registered after p calls
			key := func(op Op) string {
				if op.standalone() {
					return "S|" + op.API + "|" + op.Ext
				}
				return "M|" + op.File + "|" + op.Ext
			}
			later := map[string]bool{}
			for _, op := range tp.Ops[p:] {
				later[key(op)] = true
				if op.standalone() {
					later["S"] = true // standalone calls of a test share one ordinal sequence per name pattern
				}
			}
			var cands []Op
			for _, op := range tp.Ops[:p] {
				if op.Empty || op.Fail != "" || later[key(op)] || (op.standalone() && later["S"]) {
					continue
				}
				cands = append(cands, op)
			}
			if len(cands) == 0 {
				continue
			}
			for k, n := 0, 1+r.IntN(2); k < n; k++ {
				op := cands[r.IntN(len(cands))]
				op.Multi, op.AltVal, op.FailOnlyExec = nil, nil, 0
				op.Val = genValue(r, op.API, nil, HistOpts{NoHuge: true, NoHeader: true}, h.Classes)
				tp.CleanupOps = append(tp.CleanupOps, op)
			}
			tp.CleanupAt = p + 1
			h.Classes["match-calls-from-a-cleanup-callback"] = true
		}
	}
	if o.Twins && r.IntN(6) == 0 {
		// test names are unique per package only: `package p` and `package p_test` of one
		// directory may both declare TestX and run in one binary. The twin uses its own files.
		for _, tp := range h.Tests {
			var ops []Op
			for _, op := range tp.Ops {
				if op.standalone() {
					continue
				}
				op.File += "tw"
				ops = append(ops, op)
			}
			if len(ops) >= 2 {
				h.Tests = append(h.Tests, TestPlan{Name: tp.Name, Ops: ops, Execs: tp.Execs})
				h.Interleave = true
				h.Classes["interleaved-tests"] = true
				h.Classes["two-live-tests-with-the-same-name-on-different-files"] = true
				break
			}
		}
	}
	h.ClassList = h.Classes.List()
	return h
}

// exec is one running test execution.
type exec struct {
	t    *vkit.T
	plan *TestPlan
	next int
	idx  int  // 1-based execution number of this test in the process
	cb   bool // the cleanup callback of the plan has been registered
}

// RunProcess executes every test of the history once per requested execution in
// one simulated process, in lockstep with the model. onStep sees every step; the
// run stops at the first step that has problems (model and reality have diverged).
func (s *Sess) RunProcess(r *rand.Rand, h *History, m vkit.Mode, noColor bool, mutate func(tp *TestPlan, idx int, op *Op), onStep func(o Op, res StepResult) bool) bool {
	return s.RunProcessN(r, h, m, noColor, 0, mutate, onStep)
}

// RunProcessN is RunProcess with the executions per test capped at maxExecs (0 = as planned).
func (s *Sess) RunProcessN(r *rand.Rand, h *History, m vkit.Mode, noColor bool, maxExecs int, mutate func(tp *TestPlan, idx int, op *Op), onStep func(o Op, res StepResult) bool) bool {
	execsOf := func(tp *TestPlan) int {
		if maxExecs > 0 && tp.Execs > maxExecs {
			return maxExecs
		}
		return tp.Execs
	}
	s.NewProcess(m, noColor)
	for f, ents := range h.Pre {
		for _, e := range ents {
			s.AddAddressable(s.MultiPath(Op{File: f}), e.ID)
		}
	}
	for _, tp := range h.Tests {
		cnt := map[string]int{}
		for _, op := range append(append([]Op(nil), tp.Ops...), tp.CleanupOps...) {
			if !op.standalone() && !op.Empty {
				p := s.MultiPath(op)
				cnt[p]++
				s.AddAddressable(p, vkit.SlotID(tp.Name, cnt[p]))
			}
		}
	}
	aborted := false
	// regCleanup registers the plan's cleanup callback when its turn has come.
	regCleanup := func(e *exec) {
		if e.cb || e.plan.CleanupAt == 0 || e.next != e.plan.CleanupAt-1 {
			return
		}
		e.cb = true
		e.t.Cleanup(func() {
			for k, op := range e.plan.CleanupOps {
				if aborted {
					return
				}
				if mutate != nil {
					mutate(e.plan, 1000+k, &op)
				}
				if !onStep(op, s.Step(e.t, op, m)) {
					aborted = true
				}
			}
		})
	}
	stepOne := func(e *exec) bool {
		regCleanup(e)
		op := e.plan.Ops[e.next]
		if op.Fail != "" && op.FailOnlyExec >= 1 && op.FailOnlyExec != e.idx {
			op.Fail = ""
			if op.AltVal != nil {
				op.Val = *op.AltVal
			}
		}
		if mutate != nil {
			mutate(e.plan, e.next, &op)
		}
		e.next++
		if s.BeforeStep != nil {
			s.BeforeStep(op)
		}
		res := s.Step(e.t, op, m)
		return onStep(op, res)
	}
	if !h.Interleave {
		for i := range h.Tests {
			tp := &h.Tests[i]
			for x := 0; x < execsOf(tp); x++ {
				e := &exec{t: vkit.NewT(tp.Name), plan: tp, idx: x + 1}
				for e.next < len(tp.Ops) {
					if !stepOne(e) {
						return false
					}
				}
				if tp.SkipAt > 0 {
					snaps.Skip(e.t, "skipped by plan")
					e.t.Take()
				}
				regCleanup(e)
				s.EndExec(e.t)
				if aborted {
					return false
				}
			}
		}
		return true
	}
	// interleaved: all tests are live at once (as parallel tests are), calls are
	// issued one at a time from this goroutine in a seeded random order
	remaining := make([]int, len(h.Tests))
	live := make([]*exec, len(h.Tests))
	for i := range h.Tests {
		remaining[i] = execsOf(&h.Tests[i])
	}
	for {
		var cand []int
		for i := range h.Tests {
			if live[i] == nil && remaining[i] > 0 {
				live[i] = &exec{t: vkit.NewT(h.Tests[i].Name), plan: &h.Tests[i], idx: execsOf(&h.Tests[i]) - remaining[i] + 1}
				remaining[i]--
			}
			if live[i] != nil {
				cand = append(cand, i)
			}
		}
		if len(cand) == 0 {
			return true
		}
		i := cand[r.IntN(len(cand))]
		e := live[i]
		if e.next < len(e.plan.Ops) {
			if !stepOne(e) {
				return false
			}
		}
		if e.next >= len(e.plan.Ops) {
			if e.plan.SkipAt > 0 {
				snaps.Skip(e.t, "skipped by plan")
				e.t.Take()
			}
			regCleanup(e)
			s.EndExec(e.t)
			if aborted {
				return false
			}
			live[i] = nil
		}
	}
}

func (s *Sess) seedPre(h *History) {
	for f, ents := range h.Pre {
		s.Seed(s.MultiPath(Op{File: f}), ents)
	}
}

// appendPost appends the entries other tests recorded later to the files (and the model).
func (s *Sess) appendPost(h *History) {
	for f, ents := range h.Post {
		p := s.MultiPath(Op{File: f})
		s.Seed(p, append(append([]vkit.Slot(nil), s.Store.Files[p]...), ents...))
	}
}

func describeOp(o Op) string {
	return fmt.Sprintf("%s(%s, file=%q) %s", o.API, o.Test, o.File, vkit.Clip(fmt.Sprintf("%q", o.Val.S), 120))
}
