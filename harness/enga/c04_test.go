package enga

import (
	"fmt"
	"math/rand/v2"
	"strings"

	"github.com/gkampitakis/go-snaps/snaps"

	"verifharness/vkit"
)

func init() { register("C04", checkC04) }

type onMode struct {
	Name string
	Mode vkit.Mode
	Upd  *bool
}

func onModes() []onMode {
	t := true
	return []onMode{
		{"Update(true)", vkit.Mode{}, &t},
		{"UPDATE_SNAPS=true", vkit.Mode{UpdateVar: "true"}, nil},
		{"Update(true)+UPDATE_SNAPS=true", vkit.Mode{UpdateVar: "true"}, &t},
		{"Update(true)+UPDATE_SNAPS=clean", vkit.Mode{UpdateVar: "clean"}, &t},
	}
}

// newBody draws a replacement text for old, aimed at the rewrite path:
// shorter, longer, empty, multi-line, terminator-like, header-like, 1 MB <-> 1 B.
// swapTerminatorLines exchanges whole lines `---` and `/-/-/-/`.
func swapTerminatorLines(s string) string {
	ls := strings.Split(s, "\n")
	for i, l := range ls {
		switch l {
		case "---":
			ls[i] = "/-/-/-/"
		case "/-/-/-/":
			ls[i] = "---"
		}
	}
	return strings.Join(ls, "\n")
}

func newBody(r *rand.Rand, old string, headers []string) (string, string) {
	switch r.IntN(9) {
	case 0:
		if len(old) > 1 {
			return old[:len(old)/2], "shorter"
		}
		return "", "empty"
	case 1:
		return old + "\n" + strings.Repeat("more and more lines\n", 1+r.IntN(40)), "longer"
	case 2:
		return "", "empty"
	case 3:
		return "l1\nl2\n\nl4\n", "multi-line"
	case 4:
		return pick2(r, "---", "/-/-/-/\nx", "a\n---\nb", "----", "--- ") + fmt.Sprint(r.IntN(3)), "terminator-like"
	case 5:
		if len(headers) > 0 {
			return "x\n" + headers[r.IntN(len(headers))] + "\ny", "addressed-header"
		}
		return "[TestZ - 1]", "header-like"
	case 6:
		return strings.Repeat("B", 1<<20), "1MB"
	case 7:
		return "b", "1B"
	default:
		s, _ := vkit.Text(r, vkit.TextOpts{NoHuge: true, Headers: headers})
		return s + "!", "random"
	}
}

// checkC04: update run over a recorded directory. Exactly the changed entries are
// rewritten to exactly the new values, everything else stays byte-identical and
// in place (independent reader vs model after every rewrite, backdated mtimes for
// "no write at all"), and a following read-only run passes without writing.
func checkC04(c *vkit.Ctx) {
	c.P.Rule = "(in every 5th case the JSON format option of all Configs changes between the recording and the update run: same documents, other formatted values) case = recorded directory (generated history: 1-6 tests, up to 14 entries each, MatchSnapshot/JSON/YAML entries over 1-3 files plus standalone and standalone-JSON files; some files carry 30-330 entries of other tests before the program's and 30-150 after them, so entries sit at arbitrary offsets of files of several KiB; half of the histories go through one Config object per option set) then an update run in which a random subset S of calls changes value (shorter, longer, empty, multi-line, terminator-like, header-like, 1 MB <-> 1 B) with updating enabled in one of four ways, then a read-only run (Update(false) or CI) with the new values; non-trivial = |S| >= 1 and some rewritten multi-entry file holds >= 2 entries; distinct by hash(history, S, mode)"
	c.P.Assumptions = []string{"VerifResetProcessState simulates a new process", "mtime backdating: a file whose mtime is still 2001-02-03 and whose inode is unchanged was not written"}
	modes := onModes()
	n := c.N(1500, 40000)
	for i := 0; i < n; i++ {
		if !c.Mine(i) {
			continue
		}
		r := c.Rand("hist", i)
		h := GenHistory(r, HistOpts{APIs: []string{"snap", "snap", "snap", "json", "yaml", "ssnap", "sjson"}, NoHuge: true})
		om := modes[r.IntN(len(modes))]
		c.Guard(histSample(&h), func() { runC04(c, i, &h, om) })
	}
}

func runC04(c *vkit.Ctx, i int, h *History, om onMode) {
	r := c.Rand("run", i)
	s := NewSess("c04")
	defer s.Close()
	if i%4 == 3 {
		s.Sub = SubDirs[(i/4)%len(SubDirs)]
		c.Count("sessions_whose_snapshot_directory_does_not_exist_yet", 1)
	}
	s.ShareConfigs = i%2 == 0
	s.ZeroConfigs = i%4 == 1
	if s.ShareConfigs {
		c.Count("histories_through_shared_config_objects", 1)
	}
	s.seedPre(h)
	ok := true
	s.RunProcess(r, h, vkit.Mode{}, true, nil, func(o Op, res StepResult) bool {
		// premise: the directory was recorded (outcomes as the model gives them); what the
		// recording looks like on disk is judged by the update run's own comparisons
		if res.Got != res.Expected {
			ok = false
		}
		return ok
	})
	if !ok {
		c.Count("premise_record_failed", 1)
		return
	}
	s.appendPost(h)
	// headers per file for header-like replacement bodies
	headers := map[string][]string{}
	for _, t := range h.Tests {
		cnt := map[string]int{}
		for _, o := range t.Ops {
			if !o.standalone() {
				cnt[o.File]++
				headers[o.File] = append(headers[o.File], "["+vkit.SlotID(t.Name, cnt[o.File])+"]")
			}
		}
	}
	pS := []int{0, 10, 30, 60, 100}[r.IntN(5)] // share of calls that change; 0 = S empty
	changed := map[string]string{}
	// in every 5th case the project changed the JSON format option of its Configs after the
	// recording: the documents are the same, their formatted values are not - the update run
	// rewrites those entries and the read-only run passes against the new format
	var newJSON *snaps.JSONConfig
	if i%5 == 3 {
		newJSON = &[]snaps.JSONConfig{{Width: 20, Indent: "\t", SortKeys: false}, {Width: 200, Indent: "    ", SortKeys: true}, {Width: 80, Indent: " ", SortKeys: false}, {Width: 0, Indent: "  ", SortKeys: true}}[r.IntN(4)]
		c.Count("cases_with_a_changed_JSON_format_option", 1)
	}
	mutate := func(upd *bool) func(tp *TestPlan, idx int, op *Op) {
		return func(tp *TestPlan, idx int, op *Op) {
			op.Upd = upd
			if newJSON != nil && (op.API == "json" || op.API == "sjson") {
				op.JSONCfg = newJSON
			}
			mr := mutRand(c.P.Seed+int64(i), 2, tp.Name, idx)
			if mr.IntN(100) >= pS {
				return
			}
			switch op.API {
			case "snap", "ssnap":
				nb, cls := newBody(mr, op.Val.S, headers[op.File])
				if op.API == "ssnap" && mr.IntN(6) == 0 {
					// standalone files are raw: a whole line `---` and a whole line `/-/-/-/` are two
					// different ordinary lines there, swapping them is a change like any other
					if sw := swapTerminatorLines(op.Val.S); sw != op.Val.S {
						nb, cls = sw, "standalone-terminator-and-escape-token-lines-swapped"
					} else {
						nb, cls = op.Val.S+"\n---\n/-/-/-/", "standalone-gains-terminator-and-escape-token-lines"
					}
				}
				if op.API == "snap" {
					nb = vkit.NoCREOL(nb)
				}
				op.Val = Val{Kind: "str", S: nb}
				op.Multi = nil
				changed[fmt.Sprintf("%s#%d", tp.Name, idx)] = cls
			default:
				op.Val = genValue(mr, op.API, nil, HistOpts{NoHuge: true}, vkit.Classes{})
				changed[fmt.Sprintf("%s#%d", tp.Name, idx)] = "new-document"
			}
		}
	}
	stopped := false
	updatedN, multiRewritten := 0, false
	report := func(phase string) func(o Op, res StepResult) bool {
		return func(o Op, res StepResult) bool {
			c.Count(phase+"_calls", 1)
			c.Count(phase+"_outcome_"+res.Got, 1)
			if res.Got == vkit.Updated {
				updatedN++
				if !o.standalone() && len(s.Store.Files[res.Path]) >= 2 {
					multiRewritten = true
				}
			}
			if len(res.Problems) == 0 {
				return true
			}
			stopped = true
			p := res.Problems[0]
			if p.Class == "terminator-escape-conflation" {
				c.Count("c02_material_not_judged", 1)
				return false
			}
			c.Violate(phase+"-"+p.Kind, p.Class, fmt.Sprintf("%s mode %s: %s", phase, om.Name, p.Detail), map[string]any{"history": h, "op": o, "k": res.K, "changed": changed, "mode": om.Name})
			return false
		}
	}
	s.RunProcess(r, h, om.Mode, r.IntN(2) == 0, mutate(om.Upd), report("update"))
	if !stopped {
		// read-only follow-up: same (new) values, update disabled
		f := false
		ro := []offMode{{"Update(false)", vkit.Mode{}, &f}, {"CI", vkit.Mode{CI: true}, nil}, {"Update(false)+UPDATE_SNAPS=true", vkit.Mode{UpdateVar: "true"}, &f}}[r.IntN(3)]
		vkit.Backdate(s.Root)
		before := vkit.TakeDigest(s.Root)
		s.RunProcess(r, h, ro.Mode, r.IntN(2) == 0, mutate(ro.Upd), func(o Op, res StepResult) bool {
			c.Count("readonly_calls", 1)
			if o.Empty && res.Got == "noop" && len(res.Problems) == 0 {
				return true
			}
			if res.Got != vkit.Passed {
				stopped = true
				cl := ""
				if len(res.Problems) > 0 {
					cl = res.Problems[0].Class
				}
				c.Violate("readonly-run-not-passed", cl, fmt.Sprintf("after update (%s), read-only (%s): %s k=%d got %s: %s", om.Name, ro.Name, describeOp(o), res.K, res.Got, firstErr(res.Signals)),
					map[string]any{"history": h, "op": o, "changed": changed})
				return false
			}
			if len(res.Problems) > 0 {
				stopped = true
				c.Violate("readonly-"+res.Problems[0].Kind, res.Problems[0].Class, res.Problems[0].Detail, map[string]any{"history": h, "op": o, "changed": changed})
				return false
			}
			return true
		})
		if !stopped {
			if d := before.Diff(vkit.TakeDigest(s.Root), true); len(d) > 0 {
				c.Violate("readonly-run-changed-bytes", "", fmt.Sprint(d), map[string]any{"history": h, "changed": changed})
			}
		}
	}
	for _, cls := range changed {
		c.Count("newbody:"+cls, 1)
	}
	c.Count("mode:"+om.Name, 1)
	if len(changed) == 0 {
		c.Count("S_empty_runs", 1)
	}
	c.Case(vkit.Hash(histHash(h), fmt.Sprint(changed), om.Name), updatedN >= 1 && multiRewritten)
	if len(changed) > 0 {
		sm := histSample(h)
		sm["changed"] = changed
		sm["mode"] = om.Name
		c.Sample(sm)
	}
}
