package enga

import (
	"encoding/json"
	"fmt"
	"strings"

	"verifharness/vkit"
)

func init() { register("C01", checkC01) }

func histSample(h *History) map[string]any {
	var tests []string
	for _, t := range h.Tests {
		var ops []string
		for j, o := range t.Ops {
			if j >= 3 {
				ops = append(ops, fmt.Sprintf("…(+%d)", len(t.Ops)-3))
				break
			}
			ops = append(ops, o.API+":"+vkit.Clip(fmt.Sprintf("%q", o.Val.S), 60))
		}
		tests = append(tests, fmt.Sprintf("%s x%d [%s]", t.Name, t.Execs, strings.Join(ops, ", ")))
	}
	return map[string]any{"tests": tests, "classes": h.ClassList, "interleaved": h.Interleave, "pre_existing_files": len(h.Pre)}
}

func histHash(h *History) uint64 {
	b, _ := json.Marshal(h)
	return vkit.Hash(string(b))
}

// checkC01: record a history, then replay it twice in fresh simulated processes.
// Refuted by: any Error/Log in a replay, any outcome other than passed, any
// change of the directory's bytes.
func checkC01(c *vkit.Ctx) {
	c.P.Rule = "case = generated history (1-6 tests from a confusable-name family, 0-14 calls each, MatchSnapshot/MatchJSON/MatchYAML mixed over 1-3 files, optional pre-existing entries, optional repeated executions, sequential or call-interleaved); recorded once then replayed twice in fresh simulated processes under a random mode; non-trivial = history carries >=1 hostile class (terminator/escape/header-like/blank/edge-newline/invalid-UTF-8/long line/>=10 ordinals/mixed APIs/pre-existing content); distinct by hash of the whole history"
	c.P.Assumptions = []string{"VerifResetProcessState faithfully simulates a new test process (cross-checked by engine B real-process replays)", "kr/pretty and tidwall/pretty are deterministic on the generated subset (premise asserted per value)"}
	n := c.N(5000, 150000)
	for i := 0; i < n; i++ {
		if !c.Mine(i) {
			continue
		}
		r := c.Rand("hist", i)
		h := GenHistory(r, HistOpts{APIs: []string{"snap", "snap", "json", "yaml"}, NoHuge: i%7 != 0, Cleanups: true})
		c.Guard(histSample(&h), func() { runC01(c, i, &h) })
	}
}

func runC01(c *vkit.Ctx, i int, h *History) {
	r := c.Rand("run", i)
	s := NewSess("c01")
	defer s.Close()
	if i%4 == 3 {
		// the snapshot directory does not exist yet (and may contain a percent sign): only a
		// call that stores something may create it
		s.Sub = SubDirs[(i/4)%len(SubDirs)]
		c.Count("sessions_whose_snapshot_directory_does_not_exist_yet", 1)
	}
	s.ShareConfigs = i%2 == 0
	s.ZeroConfigs = i%4 == 1
	if s.ShareConfigs {
		c.Count("histories_through_shared_config_objects", 1)
	}
	s.StrictWrites = false
	s.seedPre(h)
	ok := true
	var premise Problem
	// run 1: record - one execution per test. Re-executions belong to the replays: a second or
	// third execution of the same test (-count) is "a later run that makes the same calls" too,
	// and must not be hidden inside the premise.
	s.RunProcessN(r, h, vkit.Mode{}, r.IntN(2) == 0, 1, nil, func(o Op, res StepResult) bool {
		c.Count("record_calls", 1)
		c.Count("record_outcome_"+res.Got, 1)
		// premise of C01: the run recorded (every call got the outcome the model gives).
		// How the recording looks on disk is deliberately NOT part of the premise: a
		// recording that is stored wrongly is exactly what a later replay must expose.
		if res.Got != res.Expected {
			ok = false
			premise = res.Problems[0]
			return false
		}
		return true
	})
	if !ok {
		// a run that failed to record is C03 material, not judged here
		c.Count("premise_failed", 1)
		c.Count("premise_failed:"+premise.Kind+":"+premise.Class, 1)
		if premise.Class == "" {
			c.Note("record run not judged under C01 (C03 material): " + premise.Detail)
		}
		c.Case(histHash(h), false)
		return
	}
	recorded := vkit.TakeDigest(s.Root)
	for run := 2; run <= 3; run++ {
		mode := []vkit.Mode{{}, {CI: true}, {UpdateVar: "true"}, {UpdateVar: "clean"}}[r.IntN(4)]
		noColor := r.IntN(2) == 0
		bad := false
		s.RunProcess(r, h, mode, noColor, nil, func(o Op, res StepResult) bool {
			c.Count("replay_calls", 1)
			c.Count("replay_outcome_"+res.Got, 1)
			if o.Empty && res.Got == "noop" && len(res.Problems) == 0 {
				return true // MatchSnapshot without values: a warning is logged, nothing else happens
			}
			if res.Got != vkit.Passed || len(res.Signals.Errors)+len(res.Signals.Logs) > 0 {
				class := ""
				for _, p := range res.Problems {
					if p.Class != "" {
						class = p.Class
					}
				}
				c.Violate("replay-not-clean", class, fmt.Sprintf("run %d mode %+v nocolor=%v: %s k=%d got %s; %s", run, mode, noColor, describeOp(o), res.K, res.Got, firstErr(res.Signals)),
					map[string]any{"history": h, "op": o})
				bad = true
				return false
			}
			for _, p := range res.Problems {
				c.Violate("replay-"+p.Kind, p.Class, fmt.Sprintf("run %d: %s", run, p.Detail), map[string]any{"history": h, "op": o})
				bad = true
				return false
			}
			return true
		})
		if bad {
			break
		}
		if d := recorded.Diff(vkit.TakeDigest(s.Root), true); len(d) > 0 {
			c.Violate("replay-changed-directory", "", fmt.Sprintf("run %d changed bytes: %v", run, d), map[string]any{"history": h})
			break
		}
		c.Count("replay_runs_clean", 1)
	}
	for k := range h.Classes {
		c.Count("class:"+k, 1)
	}
	c.Case(histHash(h), h.Classes.Hostile())
	c.Sample(histSample(h))
}
