package enga

import (
	"encoding/json"
	"errors"
	"fmt"
	tpretty "github.com/tidwall/pretty"
	"math/rand/v2"
	"os"
	"path/filepath"
	"strings"

	"github.com/gkampitakis/go-snaps/match"
	"github.com/gkampitakis/go-snaps/snaps"

	"verifharness/vkit"
)

func init() { register("C17", checkC17) }

type fSpec struct {
	Name  string `json:"matcher"` // Any | Type | Custom
	PathS string `json:"path"`
	Fails string `json:"fails,omitempty"` // "", missing-path, wrong-type, callback-error
}

type anyMatcher interface {
	match.JSONMatcher
	match.YAMLMatcher
}

func buildFailing(r *rand.Rand, d *vkit.JNode, yaml bool, used *[]vkit.JPath) (anyMatcher, fSpec, bool) {
	pathOf := func(p vkit.JPath) string {
		if yaml {
			return p.YAMLPath()
		}
		return p.GJSON()
	}
	missing := "zz_missing.nope"
	if yaml {
		missing = "$.zz_missing.nope"
	}
	switch r.IntN(8) {
	case 7:
		// the same Type matcher applied twice to one path: the second application sees the
		// placeholder string left by the first, which is not of the expected type
		p, ok := pickPath(r, d, func(p vkit.JPath) bool {
			t := d.At(p)
			return (yaml || gjsonAddressable(p)) && t.Kind == "bool" && free(p, *used)
		})
		if !ok {
			return match.Any(missing), fSpec{"Any", missing, "missing-path"}, true
		}
		*used = append(*used, p)
		return match.Type[bool](pathOf(p), pathOf(p)), fSpec{"Type", pathOf(p), "type-applied-twice"}, true
	case 6:
		// a path that EXISTS with value null is not a missing path: Type must reject it,
		// with or without ErrOnMissingPath(false)
		p, ok := pickPath(r, d, func(p vkit.JPath) bool {
			return (yaml || gjsonAddressable(p)) && d.At(p).Kind == "null" && free(p, *used)
		})
		if !ok {
			return match.Any(missing), fSpec{"Any", missing, "missing-path"}, true
		}
		*used = append(*used, p)
		switch r.IntN(6) {
		case 0:
			// null is not a value of an interface type either
			return match.Type[error](pathOf(p)), fSpec{"Type", pathOf(p), "wrong-type-null-interface-expected"}, true
		case 1:
			return match.Type[fmt.Stringer](pathOf(p)).ErrOnMissingPath(false), fSpec{"Type", pathOf(p), "wrong-type-null-interface-expected"}, true
		}
		if r.IntN(2) == 0 {
			return match.Type[string](pathOf(p)).ErrOnMissingPath(false), fSpec{"Type", pathOf(p), "wrong-type-null-lenient"}, true
		}
		return match.Type[float64](pathOf(p)), fSpec{"Type", pathOf(p), "wrong-type-null"}, true
	case 0:
		return match.Any(missing), fSpec{"Any", missing, "missing-path"}, true
	case 1:
		return match.Type[string](missing), fSpec{"Type", missing, "missing-path"}, true
	case 2:
		return match.Custom(missing, func(v any) (any, error) { return "x", nil }), fSpec{"Custom", missing, "missing-path"}, true
	case 3, 4:
		p, ok := pickPath(r, d, func(p vkit.JPath) bool {
			t := d.At(p)
			return (yaml || gjsonAddressable(p)) && t.Kind != "null" && free(p, *used)
		})
		if !ok {
			return nil, fSpec{}, false
		}
		*used = append(*used, p)
		t := d.At(p)
		switch r.IntN(9) {
		case 0:
			// expected types that are interfaces: no decoded JSON/YAML value implements them
			return match.Type[fmt.Stringer](pathOf(p)), fSpec{"Type", pathOf(p), "wrong-type-interface-expected"}, true
		case 1:
			return match.Type[error](pathOf(p)), fSpec{"Type", pathOf(p), "wrong-type-interface-expected"}, true
		case 2:
			return match.Type[json.Marshaler](pathOf(p)), fSpec{"Type", pathOf(p), "wrong-type-interface-expected"}, true
		}
		if t.Kind == "str" {
			return match.Type[float64](pathOf(p)), fSpec{"Type", pathOf(p), "wrong-type"}, true
		}
		return match.Type[string](pathOf(p)), fSpec{"Type", pathOf(p), "wrong-type"}, true
	default:
		p, ok := pickPath(r, d, func(p vkit.JPath) bool { return (yaml || gjsonAddressable(p)) && free(p, *used) })
		if !ok {
			return nil, fSpec{}, false
		}
		*used = append(*used, p)
		// the error a callback returns may come from anywhere, e.g. from a matcher the callback
		// applies to the value it was handed (the idiom for masking inside array elements)
		cbErr := errors.New("callback says no")
		kind := "callback-error"
		switch r.IntN(6) {
		case 2, 3:
			// error values of slice / map types (validator-style error lists): legal errors that
			// cannot be compared with ==
			cbErr, kind = sliceErr{"field a: required", "field b: too long"}, "callback-error-of-slice-type"
			if r.IntN(2) == 0 {
				cbErr, kind = mapErr{"a": "required"}, "callback-error-of-map-type"
			}
		case 0:
			if _, es := match.Any("no.such.member").JSON([]byte(`{"a":1}`)); len(es) == 1 {
				cbErr, kind = es[0].Reason, "callback-error-taken-from-a-nested-matcher"
			}
		case 1:
			if _, es := match.Type[string]("a").JSON([]byte(`{"a":1}`)); len(es) == 1 {
				cbErr, kind = fmt.Errorf("element 0: %w", es[0].Reason), "callback-error-wrapping-a-nested-matcher-error"
			}
		}
		cm := match.Custom(pathOf(p), func(v any) (any, error) { return nil, cbErr })
		if r.IntN(2) == 0 {
			// lenient about a MISSING path; the path exists, so the callback's error still counts
			cm = cm.ErrOnMissingPath(false)
			kind += "-lenient-matcher"
		}
		return cm, fSpec{"Custom", pathOf(p), kind}, true
	}
}

type sliceErr []string

func (e sliceErr) Error() string { return strings.Join(e, "; ") }

type mapErr map[string]string

func (e mapErr) Error() string { return fmt.Sprint(map[string]string(e)) }

func buildOK(r *rand.Rand, d *vkit.JNode, yaml bool, used *[]vkit.JPath) (anyMatcher, fSpec, bool) {
	p, ok := pickPath(r, d, func(p vkit.JPath) bool { return (yaml || gjsonAddressable(p)) && free(p, *used) })
	if !ok {
		return nil, fSpec{}, false
	}
	*used = append(*used, p)
	ps := p.GJSON()
	if yaml {
		ps = p.YAMLPath()
	}
	if r.IntN(2) == 0 {
		return match.Any(ps).Placeholder("<ok>"), fSpec{"Any", ps, ""}, true
	}
	return match.Custom(ps, func(v any) (any, error) { return "<ok>", nil }), fSpec{"Custom", ps, ""}, true
}

// free: matchers of one call target pairwise unrelated paths, so that the effect of
// one (replacing a subtree by a placeholder) cannot remove the path of another.
func free(p vkit.JPath, used []vkit.JPath) bool {
	for _, q := range used {
		if prefixRelated(p, q) {
			return false
		}
	}
	return true
}

func checkC17(c *vkit.Ctx) {
	c.P.Rule = "case = (document, 1-4 matchers mixing satisfiable ones with failing ones - missing path on Any/Type/Custom, Type of the wrong type, Custom callback error (a fresh error, an error of slice or map type, or one taken from / wrapping the error of a matcher applied inside the callback; the Custom matcher strict or lenient about missing paths) - in random order, entry point MatchJSON|MatchYAML|MatchStandaloneJSON, mode create-allowed|Update(true)|UPDATE_SNAPS=true|CI, slot missing|equal|different); oracle: exactly one Error naming match.<Name>(\"<path>\") for every failing matcher, directory digest unchanged (backdated mtimes), and a following plain call of the same test lands in ordinal 2; every 4th case is the ErrOnMissingPath(false) metamorphic check (a missing path is ignored: same stored text as without that matcher); non-trivial = >=1 failing and >=1 satisfiable matcher in one call, or the ErrOnMissingPath(false) variant; distinct by hash(document, matchers, api, mode, slot state)"
	n := c.N(60000, 2000000)
	for i := 0; i < n; i++ {
		if !c.Mine(i) {
			continue
		}
		r := c.Rand("f", i)
		if i%4 == 3 {
			c.Guard(i, func() { c17Missing(c, r, i) })
		} else {
			c.Guard(i, func() { c17Fail(c, r, i) })
		}
	}
}

type c17call struct {
	api  string
	root string
	file string
}

func (k c17call) do(t *vkit.T, doc string, upd *bool, ms []anyMatcher) {
	opts := []func(*snaps.Config){snaps.Dir(k.root), snaps.Filename(k.file)}
	if upd != nil {
		opts = append(opts, snaps.Update(*upd))
	}
	cfg := snaps.WithConfig(opts...)
	switch k.api {
	case "yaml":
		ym := make([]match.YAMLMatcher, len(ms))
		for i, m := range ms {
			ym[i] = m
		}
		cfg.MatchYAML(t, doc, ym...)
	case "json":
		jm := make([]match.JSONMatcher, len(ms))
		for i, m := range ms {
			jm[i] = m
		}
		cfg.MatchJSON(t, doc, jm...)
	default:
		jm := make([]match.JSONMatcher, len(ms))
		for i, m := range ms {
			jm[i] = m
		}
		cfg.MatchStandaloneJSON(t, doc, jm...)
	}
}

func genDoc(r *rand.Rand, yaml bool) (*vkit.JNode, string) {
	if yaml {
		d := vkit.YAMLTreeDoc(r, 3)
		return d, vkit.YAMLFromTree(d)
	}
	d := vkit.JSONObjectDoc(r, 3, 1, vkit.Classes{})
	return d, d.Render(r, false)
}

func c17Fail(c *vkit.Ctx, r *rand.Rand, i int) {
	api := pick2(r, "json", "yaml", "sjson")
	yaml := api == "yaml"
	d, text := genDoc(r, yaml)
	var ms []anyMatcher
	var specs []fSpec
	nfail, nok := 0, 0
	var used []vkit.JPath
	nm := 1 + r.IntN(4)
	for k := 0; k < nm; k++ {
		var m anyMatcher
		var s fSpec
		var ok bool
		if k == 0 || r.IntN(2) == 0 {
			m, s, ok = buildFailing(r, d, yaml, &used)
			if ok {
				nfail++
			}
		} else {
			m, s, ok = buildOK(r, d, yaml, &used)
			if ok {
				nok++
			}
		}
		if ok {
			ms = append(ms, m)
			specs = append(specs, s)
		}
	}
	if nfail == 0 {
		return
	}
	if i%60 == 17 {
		// a call with very many failing matchers (a table of expectations run against the wrong
		// document): 95-160 paths that do not exist, each in a matcher of its own, around the
		// ones drawn above - every one of them is named
		extra := []int{95, 98, 99, 100, 101, 127, 128, 160}[r.IntN(8)]
		for x := 0; x < extra; x++ {
			p := fmt.Sprintf("zz_missing.n%03d", x)
			if yaml {
				p = "$." + p
			}
			switch x % 3 {
			case 0:
				ms = append(ms, match.Any(p))
				specs = append(specs, fSpec{"Any", p, "missing-path"})
			case 1:
				ms = append(ms, match.Type[string](p))
				specs = append(specs, fSpec{"Type", p, "missing-path"})
			default:
				ms = append(ms, match.Custom(p, func(v any) (any, error) { return v, nil }))
				specs = append(specs, fSpec{"Custom", p, "missing-path"})
			}
		}
		nfail += extra
		c.Count("calls_with_about_a_hundred_failing_matchers", 1)
	}
	r.Shuffle(len(ms), func(a, b int) { ms[a], ms[b] = ms[b], ms[a]; specs[a], specs[b] = specs[b], specs[a] })
	t := true
	type md struct {
		name string
		m    vkit.Mode
		upd  *bool
	}
	mode := []md{{"create-allowed", vkit.Mode{}, nil}, {"Update(true)", vkit.Mode{}, &t}, {"UPDATE_SNAPS=true", vkit.Mode{UpdateVar: "true"}, nil}, {"CI", vkit.Mode{CI: true}, nil}}[r.IntN(4)]
	state := pick2(r, "missing", "equal", "different")
	in := map[string]any{"api": api, "document": vkit.Clip(text, 1500), "matchers": specs, "mode": mode.name, "slot": state}
	k := c17call{api: api, root: vkit.MkScratch("c17"), file: "fm"}
	defer os.RemoveAll(k.root)
	snaps.VerifSetNoColor(r.IntN(2) == 0)
	if state != "missing" {
		snaps.VerifSetMode(false, "")
		snaps.VerifResetProcessState()
		seed := text
		if state == "different" {
			// "different" means a different stored text: JSON is stored in canonical form, so
			// two presentations of one document are the same slot content
			same := func(a, b string) bool {
				if yaml {
					return a == b
				}
				return string(tpretty.PrettyOptions([]byte(a), defaultJSONOpts)) == string(tpretty.PrettyOptions([]byte(b), defaultJSONOpts))
			}
			for tries := 0; same(seed, text) && tries < 20; tries++ {
				_, seed = genDoc(r, yaml)
			}
			if same(seed, text) {
				state = "equal"
			}
		}
		ts := vkit.NewT("TestF")
		k.do(ts, seed, nil, nil)
		if vkit.Classify(ts.Take()) != vkit.Added {
			c.Count("premise_seed_failed", 1)
			return
		}
		ts.Finish()
	}
	snaps.VerifSetMode(mode.m.CI, mode.m.UpdateVar)
	snaps.VerifResetProcessState()
	vkit.Backdate(k.root)
	d0 := vkit.TakeDigest(k.root)
	tt := vkit.NewT("TestF")
	k.do(tt, text, mode.upd, ms)
	sig := tt.Take()
	out := vkit.Classify(sig)
	c.Count("failing_matcher_calls", 1)
	c.Count("mode:"+mode.name, 1)
	c.Count("slot:"+state, 1)
	if out != vkit.Failed {
		c.Violate("matcher-failure-not-one-error", "", fmt.Sprintf("%s mode %s slot %s matchers %v: outcome %s (errors=%d logs=%d)", api, mode.name, state, specs, out, len(sig.Errors), len(sig.Logs)), in)
		return
	}
	msg := vkit.StripANSI(sig.Errors[0])
	for _, s := range specs {
		if s.Fails == "" {
			continue
		}
		want := fmt.Sprintf("match.%s(\"%s\")", s.Name, s.PathS)
		if !strings.Contains(msg, want) {
			c.Violate("failing-matcher-not-named", "", fmt.Sprintf("error text lacks %s (fails: %s); text: %s", want, s.Fails, vkit.Q(msg)), in)
			return
		}
		c.Count("fails:"+s.Fails, 1)
	}
	if df := nonDir(d0.Diff(vkit.TakeDigest(k.root), false), d0); len(df) > 0 {
		c.Violate("matcher-failure-wrote", "", fmt.Sprintf("%s mode %s slot %s: %v", api, mode.name, state, df), in)
		return
	}
	if r.IntN(2) == 0 {
		// the execution ends here, having made only the failing call; the SAME test is then
		// executed again in the same process (-count): its first call addresses slot 1 again
		tt.Finish()
		snaps.VerifSetMode(false, "")
		t2 := vkit.NewT("TestF")
		k.do(t2, text, nil, nil)
		o := vkit.Classify(t2.Take())
		t2.Finish()
		want := map[string]string{"missing": vkit.Added, "equal": vkit.Passed, "different": vkit.Failed}[state]
		if o != want {
			c.Violate("re-execution-after-failing-call-lost-slot-1", "", fmt.Sprintf("%s slot %s: after an execution whose only call failed on its matchers, the next execution's first call should be %s on slot 1, got %s", api, state, want, o), in)
			return
		}
		if api != "sjson" {
			ents, _ := vkit.ReadSnapFile(filepath.Join(k.root, "fm.snap"))
			if len(vkit.FindEntries(ents, "TestF - 2")) != 0 {
				c.Violate("re-execution-after-failing-call-lost-slot-1", "", fmt.Sprintf("entries: %v", ids(ents)), in)
				return
			}
		} else if _, err := os.Stat(filepath.Join(k.root, "fm_2.snap.json")); err == nil {
			c.Violate("re-execution-after-failing-call-lost-slot-1", "", "fm_2.snap.json was created", in)
			return
		}
		c.Count("reexecution_slot_checks", 1)
		c.Case(vkit.Hash(text, fmt.Sprint(specs), api, mode.name, state, "reexec"), nfail >= 1 && nok >= 1)
		return
	}
	// the failing call consumed ordinal 1: a following plain call lands in slot 2
	snaps.VerifSetMode(false, "")
	k.do(tt, text, nil, nil)
	o2 := vkit.Classify(tt.Take())
	tt.Finish()
	if o2 != vkit.Added {
		c.Violate("later-call-lost-its-slot", "", fmt.Sprintf("%s: the call after the failing one should create slot 2, got %s", api, o2), in)
		return
	}
	if api == "sjson" {
		if _, err := os.Stat(filepath.Join(k.root, "fm_2.snap.json")); err != nil {
			c.Violate("later-call-lost-its-slot", "", "fm_2.snap.json not created: "+err.Error(), in)
			return
		}
	} else {
		ents, _ := vkit.ReadSnapFile(filepath.Join(k.root, "fm.snap"))
		if len(vkit.FindEntries(ents, "TestF - 2")) != 1 {
			c.Violate("later-call-lost-its-slot", "", fmt.Sprintf("entries after follow-up call: %v", ids(ents)), in)
			return
		}
	}
	c.Count("followup_slot_checks", 1)
	c.Case(vkit.Hash(text, fmt.Sprint(specs), api, mode.name, state), nfail >= 1 && nok >= 1)
	if i%901 == 0 {
		c.Sample(in)
	}
}

// c17Missing: ErrOnMissingPath(false) - the missing path is ignored, the other
// matchers and the comparison proceed as if that matcher were absent.
func c17Missing(c *vkit.Ctx, r *rand.Rand, i int) {
	api := pick2(r, "json", "yaml", "sjson")
	yaml := api == "yaml"
	d, text := genDoc(r, yaml)
	missing := "zz_missing.nope"
	if yaml {
		missing = "$.zz_missing.nope"
	}
	var lenient anyMatcher
	name := pick2(r, "Any", "Type", "Custom")
	switch name {
	case "Any":
		lenient = match.Any(missing).ErrOnMissingPath(false)
	case "Type":
		lenient = match.Type[string](missing).ErrOnMissingPath(false)
	default:
		lenient = match.Custom(missing, func(v any) (any, error) { return nil, errors.New("must not be called") }).ErrOnMissingPath(false)
	}
	var others []anyMatcher
	var specs []fSpec
	var used []vkit.JPath
	for k := 0; k < r.IntN(3); k++ {
		if m, s, ok := buildOK(r, d, yaml, &used); ok {
			others = append(others, m)
			specs = append(specs, s)
		}
	}
	pos := r.IntN(len(others) + 1)
	with := append(append(append([]anyMatcher{}, others[:pos]...), lenient), others[pos:]...)
	in := map[string]any{"api": api, "document": vkit.Clip(text, 1500), "lenient": name, "position": pos, "others": specs}
	read := func(root string) string {
		if api == "sjson" {
			b, _ := os.ReadFile(filepath.Join(root, "fm_1.snap.json"))
			return string(b)
		}
		b, _ := os.ReadFile(filepath.Join(root, "fm.snap"))
		return string(b)
	}
	snaps.VerifSetMode(false, "")
	snaps.VerifSetNoColor(true)
	var texts []string
	for _, ms := range [][]anyMatcher{with, others} {
		k := c17call{api: api, root: vkit.MkScratch("c17m"), file: "fm"}
		snaps.VerifResetProcessState()
		t := vkit.NewT("TestF")
		k.do(t, text, nil, ms)
		sig := t.Take()
		t.Finish()
		if o := vkit.Classify(sig); o != vkit.Added {
			os.RemoveAll(k.root)
			if len(ms) == len(with) {
				c.Violate("ignored-missing-path-still-fails", "", fmt.Sprintf("%s with match.%s(%q).ErrOnMissingPath(false): outcome %s: %s", api, name, missing, o, firstErr(sig)), in)
			} else {
				c.Count("premise_baseline_failed", 1)
			}
			return
		}
		texts = append(texts, read(k.root))
		os.RemoveAll(k.root)
	}
	c.Count("lenient_calls", 1)
	if texts[0] != texts[1] {
		c.Violate("ignored-missing-path-changes-result", "", fmt.Sprintf("with lenient matcher %s, without %s", vkit.Q(texts[0]), vkit.Q(texts[1])), in)
		return
	}
	c.Case(vkit.Hash("len", text, name, pos, fmt.Sprint(specs), api), true)
}
