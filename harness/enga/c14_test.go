package enga

import (
	"encoding/json"
	"fmt"
	"github.com/gkampitakis/go-snaps/match"
	"math/rand/v2"
	"os"
	"path/filepath"
	"runtime"
	"strconv"
	"strings"
	"sync"

	tpretty "github.com/tidwall/pretty"

	"github.com/gkampitakis/go-snaps/snaps"

	"verifharness/vkit"
)

func init() { register("C14", checkC14) }

type jsonCfg struct {
	Name string
	Cfg  *snaps.JSONConfig
	Zero bool // options applied to a zero-value snaps.Config instead of going through WithConfig
}

func jsonCfgs() []jsonCfg {
	return []jsonCfg{
		{"default", nil, false}, {"default", nil, false}, {"default", nil, false},
		{"w0-sort", &snaps.JSONConfig{Width: 0, Indent: " ", SortKeys: true}, false},
		{"w20-tab-sort", &snaps.JSONConfig{Width: 20, Indent: "\t", SortKeys: true}, false},
		{"w80-4sp-nosort", &snaps.JSONConfig{Width: 80, Indent: "    ", SortKeys: false}, false},
		{"w200-noindent-nosort", &snaps.JSONConfig{Width: 200, Indent: "", SortKeys: false}, false},
		{"w20-1sp-nosort", &snaps.JSONConfig{Width: 20, Indent: " ", SortKeys: false}, false},
		// pairs that share width and indent with another entry (or with the defaults) and differ
		// only in SortKeys: all cases of a worker run in one process, so per-layout state would show
		{"w0-1sp-nosort", &snaps.JSONConfig{Width: 0, Indent: " ", SortKeys: false}, false},
		{"w80-4sp-sort", &snaps.JSONConfig{Width: 80, Indent: "    ", SortKeys: true}, false},
		{"w20-tab-nosort", &snaps.JSONConfig{Width: 20, Indent: "\t", SortKeys: false}, false},
		{"zero-value-config", &snaps.JSONConfig{}, false},
		// same indent and SortKeys as other entries (and as the defaults), another width
		{"w80-1sp-sort", &snaps.JSONConfig{Width: 80, Indent: " ", SortKeys: true}, false},
		{"w20-1sp-sort", &snaps.JSONConfig{Width: 20, Indent: " ", SortKeys: true}, false},
		{"w200-tab-sort", &snaps.JSONConfig{Width: 200, Indent: "\t", SortKeys: true}, false},
		{"w0-4sp-nosort", &snaps.JSONConfig{Width: 0, Indent: "    ", SortKeys: false}, false},
		// `var c snaps.Config; snaps.Dir(d)(&c)`: Config and the option funcs are exported
		{"default-on-a-Config-not-built-by-WithConfig", nil, true},
		{"w80-4sp-sort-on-a-Config-not-built-by-WithConfig", &snaps.JSONConfig{Width: 80, Indent: "    ", SortKeys: true}, true},
	}
}

// Types through which the same document can be handed over as a Go value: the standard
// encoding calls their marshalers, which emit members in their own (unsorted) order.
type pmS string // MarshalJSON on the pointer receiver (called for addressable values: slice elements, fields behind a pointer)

func (p *pmS) MarshalJSON() ([]byte, error) { return []byte(*p), nil }

type vmS string // MarshalJSON on the value receiver

func (v vmS) MarshalJSON() ([]byte, error) { return []byte(v), nil }

type wrapS struct {
	Inner *pmS `json:"inner"`
	N     int  `json:"n"`
}

// typedView re-types the decoded document v (maps / []any) without changing the JSON
// document it encodes to, apart from member order inside marshaler-emitted parts.
func typedView(r *rand.Rand, d *vkit.JNode, v any) (any, string) {
	raw := func(n *vkit.JNode) string { return n.Render(r, false) }
	switch x := r.IntN(9); {
	case x == 8:
		// the whole document behind one top-level marshaler value
		switch r.IntN(3) {
		case 0:
			return json.RawMessage(raw(d)), "top-level-raw-message"
		case 1:
			return vmS(raw(d)), "top-level-value-receiver-marshaler"
		default:
			p := pmS(raw(d))
			return &p, "top-level-pointer-receiver-marshaler"
		}
	case x == 0:
		return &v, "pointer-to-interface"
	case x == 1 && d.Kind == "arr":
		out := make([]pmS, len(d.Vals))
		for i, e := range d.Vals {
			out[i] = pmS(raw(e))
		}
		return out, "slice-of-scalar-kind-with-pointer-receiver-marshaler"
	case x == 2 && d.Kind == "arr":
		out := make([]vmS, len(d.Vals))
		for i, e := range d.Vals {
			out[i] = vmS(raw(e))
		}
		return out, "slice-of-scalar-kind-with-value-receiver-marshaler"
	case x == 3 && d.Kind == "arr":
		out := make([]json.RawMessage, len(d.Vals))
		for i, e := range d.Vals {
			out[i] = json.RawMessage(raw(e))
		}
		return out, "slice-of-raw-messages"
	case x == 4 && d.Kind == "obj":
		out := map[string]*pmS{}
		for i, k := range d.Keys {
			p := pmS(raw(d.Vals[i]))
			out[k] = &p
		}
		if len(out) == len(d.Keys) {
			return out, "map-of-pointers-to-marshalers"
		}
	case x == 5 && d.Kind == "arr" && len(d.Vals) == 3:
		var out [3]pmS
		for i, e := range d.Vals {
			out[i] = pmS(raw(e))
		}
		return &out, "pointer-to-array-of-marshalers"
	case x == 6 && d.Kind == "obj":
		out := map[string]json.RawMessage{}
		for i, k := range d.Keys {
			out[k] = json.RawMessage(raw(d.Vals[i]))
		}
		if len(out) == len(d.Keys) {
			return out, "map-of-raw-messages"
		}
	}
	return v, "maps-and-slices"
}

// goFromTree converts the tree into the Go value encoding/json would decode it to.
func goFromTree(n *vkit.JNode) (any, bool) {
	switch n.Kind {
	case "obj":
		m := map[string]any{}
		for i, k := range n.Keys {
			v, ok := goFromTree(n.Vals[i])
			if !ok {
				return nil, false
			}
			m[k] = v
		}
		return m, true
	case "arr":
		l := make([]any, 0, len(n.Vals))
		for _, c := range n.Vals {
			v, ok := goFromTree(c)
			if !ok {
				return nil, false
			}
			l = append(l, v)
		}
		return l, true
	case "str":
		return n.S, true
	case "num":
		f, err := strconv.ParseFloat(n.S, 64)
		if err != nil {
			return nil, false
		}
		return f, true
	case "bool":
		return n.S == "true", true
	}
	return nil, true
}

type c14env struct {
	c        *vkit.Ctx
	root     string
	sub      int
	matchers []match.JSONMatcher // passed along by call (invalid-document cases only)
}

func (e *c14env) cfg(jc jsonCfg, file string, upd *bool) *snaps.Config {
	opts := []func(*snaps.Config){snaps.Dir(e.root), snaps.Filename(file)}
	if jc.Cfg != nil {
		opts = append(opts, snaps.JSON(*jc.Cfg))
	}
	if upd != nil {
		opts = append(opts, snaps.Update(*upd))
	}
	if jc.Zero {
		var c snaps.Config
		for _, o := range opts {
			o(&c)
		}
		return &c
	}
	return snaps.WithConfig(opts...)
}

// store records input in slot (test, 1) of file and returns outcome and stored text.
func (e *c14env) call(api string, jc jsonCfg, file, test string, input any, upd *bool) (string, vkit.Signals, string, string) {
	t := vkit.NewT(test)
	cfg := e.cfg(jc, file, upd)
	var path string
	if api == "sjson" {
		cfg.MatchStandaloneJSON(t, input, e.matchers...)
		path = filepath.Join(e.root, fmt.Sprintf("%s_1.snap.json", file))
	} else {
		cfg.MatchJSON(t, input, e.matchers...)
		path = filepath.Join(e.root, file+".snap")
	}
	sig := t.Take()
	t.Finish()
	var text string
	if api == "sjson" {
		b, _ := os.ReadFile(path)
		text = string(b)
	} else {
		ents, _ := vkit.ReadSnapFile(path)
		for _, en := range ents {
			if en.ID == vkit.SlotID(test, 1) {
				text = en.Body
			}
		}
	}
	return vkit.Classify(sig), sig, text, path
}

func formArg(form, doc string, gv any) any {
	switch form {
	case "bytes":
		return []byte(doc)
	case "value":
		return gv
	}
	return doc
}

func checkC14(c *vkit.Ctx) {
	c.P.Rule = "case = (JSON document tree depth<=4 with hostile keys/strings/numbers, entry point MatchJSON|MatchStandaloneJSON, JSON format option set, two presentations: random insignificant whitespace, member shuffle when SortKeys is on, input form string|[]byte|Go value where the document is json.Marshal(value) and the value is maps/slices or a typed view of them: slices, arrays and maps of types with pointer- or value-receiver MarshalJSON, raw messages, pointers); recorded through presentation 1, replayed through presentation 2 in a fresh simulated process (must pass, no write), recorded again through presentation 2 in another slot (texts must be equal), stored text decoded with encoding/json and compared with the input tree (ordered when SortKeys is off); plus invalid documents (24 malformation classes, the empty one also as a nil []byte; alone or together with matchers that have nothing to object to) in four modes over missing/existing slots; non-trivial = document with nesting>=2 or a hostile key/number/string class, or an invalid document; distinct by hash(document, presentations, options, api)"
	c.P.Assumptions = []string{"encoding/json is the oracle for JSON validity and for decoding", "tree comparison treats numbers by exact rational value"}
	cfgs := jsonCfgs()
	if os.Getenv("VERIF_RACE_BUILD") == "1" {
		c14Concurrent(c)
		return
	}
	n := c.N(60000, 2000000)
	for i := 0; i < n; i++ {
		if !c.Mine(i) {
			continue
		}
		r := c.Rand("doc", i)
		if i%5 == 4 {
			c.Guard(i, func() { c14Invalid(c, r, i) })
			continue
		}
		c.Guard(i, func() { c14Valid(c, r, i, cfgs) })
	}
}

func c14Valid(c *vkit.Ctx, r *rand.Rand, i int, cfgs []jsonCfg) {
	cl := vkit.Classes{}
	d := vkit.JSONDoc(r, 4, cl)
	if i%400 == 7 && d.Kind == "obj" {
		// a string value beyond one MiB: the canonical text keeps it on one line
		d.Keys = append(d.Keys, "huge")
		d.Vals = append(d.Vals, &vkit.JNode{Kind: "str", S: strings.Repeat("H", 1<<20+r.IntN(5000))})
		cl["string>1MiB"] = true
	}
	jc := cfgs[r.IntN(len(cfgs))]
	api := pick2(r, "json", "json", "sjson")
	sortOn := jc.Cfg == nil || jc.Cfg.SortKeys
	f1 := pick2(r, "string", "bytes", "value")
	f2 := pick2(r, "string", "bytes", "value")
	var gv any
	doc := d
	var p1, p2 string
	if (f1 == "value" || f2 == "value") && (d.Kind == "obj" || d.Kind == "arr" || d.Kind == "num" || d.Kind == "bool" || d.Kind == "null" || (d.Kind == "str" && i%3 == 0)) {
		// a Go string / []byte is by API a JSON text, so the value form uses non-string roots;
		// the document is then the standard encoding of the value, and the string/bytes forms carry
		// exactly that text (escape style is part of the text, it is not re-rendered)
		v, ok := goFromTree(d)
		if s, isStr := v.(string); ok && isStr {
			// a POINTER to a string or to bytes is a Go value like any other (its standard
			// encoding is a JSON string; base64 for bytes), not a JSON text
			switch r.IntN(4) {
			case 0:
				v = &s
			case 1:
				p := &s
				v = &p
			case 2:
				b := []byte(s)
				v = &b
			default:
				var a any = s
				v = &a
			}
			cl["go-value:pointer-to-string-or-bytes"] = true
		} else if ok {
			var kind string
			v, kind = typedView(r, d, v)
			cl["go-value:"+kind] = true
		}
		b, err := json.Marshal(v)
		if ok && err == nil {
			gv = v
			doc, err = vkit.ParseJSON(string(b))
			if err != nil {
				panic("harness: json.Marshal output does not parse: " + err.Error())
			}
			p1, p2 = string(b), string(b)
		}
	}
	if gv == nil {
		if f1 == "value" {
			f1 = "string"
		}
		if f2 == "value" {
			f2 = "bytes"
		}
		p1 = d.Render(r, sortOn)
		p2 = d.Render(r, sortOn)
	}
	in := map[string]any{"api": api, "options": jc.Name, "form1": f1, "form2": f2, "p1": vkit.Clip(p1, 2000), "p2": vkit.Clip(p2, 2000)}
	if !json.Valid([]byte(p1)) || !json.Valid([]byte(p2)) {
		panic("harness: generated presentation is not valid JSON")
	}
	e := &c14env{c: c, root: vkit.MkScratch("c14")}
	defer os.RemoveAll(e.root)
	snaps.VerifSetMode(false, "")
	snaps.VerifSetNoColor(true)
	snaps.VerifResetProcessState()
	out1, sig1, t1, path := e.call(api, jc, "docs", "TestJ", formArg(f1, p1, gv), nil)
	c.Count("record_calls", 1)
	if out1 != vkit.Added {
		c.Violate("valid-document-not-recorded", "", fmt.Sprintf("%s form=%s options=%s: outcome %s: %s", api, f1, jc.Name, out1, firstErr(sig1)), in)
		return
	}
	// lossless
	got, err := vkit.ParseJSON(t1)
	if err != nil {
		c.Violate("stored-text-not-json", "", fmt.Sprintf("stored text does not parse: %v: %s", err, vkit.Q(t1)), in)
		return
	}
	if diff := doc.Equal(got, !sortOn); diff != "" {
		c.Violate("stored-text-other-value", "", fmt.Sprintf("%s options=%s: stored text decodes to another value at %s; stored %s", api, jc.Name, diff, vkit.Q(t1)), in)
		return
	}
	c.Count("lossless_checks", 1)
	if api == "sjson" {
		b, _ := os.ReadFile(path)
		if !json.Valid(b) {
			c.Violate("standalone-json-invalid", "", vkit.Q(string(b)), in)
		}
	}
	// canonical: presentation 2 replays and records identically
	snaps.VerifResetProcessState()
	vkit.Backdate(e.root)
	d0 := vkit.TakeDigest(e.root)
	out2, sig2, _, _ := e.call(api, jc, "docs", "TestJ", formArg(f2, p2, gv), nil)
	c.Count("replay_calls", 1)
	if out2 != vkit.Passed {
		c.Violate("presentation-not-equivalent", "", fmt.Sprintf("%s options=%s: %s form of the same document against the %s form: %s: %s", api, jc.Name, f2, f1, out2, firstErr(sig2)), in)
		return
	}
	if df := d0.Diff(vkit.TakeDigest(e.root), false); len(nonDir(df, d0)) > 0 {
		c.Violate("replay-wrote", "", fmt.Sprint(df), in)
		return
	}
	snaps.VerifResetProcessState()
	out3, _, t2, _ := e.call(api, jc, "docs2", "TestK", formArg(f2, p2, gv), nil)
	if out3 != vkit.Added || t2 != t1 {
		c.Violate("presentations-store-different-text", "", fmt.Sprintf("%s options=%s forms %s/%s: %s vs %s", api, jc.Name, f1, f2, vkit.Q(t1), vkit.Q(t2)), in)
		return
	}
	c.Count("canonical_checks", 1)
	// update: the slot is rewritten to another document; the rewritten text must be that
	// document's canonical text (what a fresh recording stores) and decode to it
	if r.IntN(2) == 0 {
		d2 := vkit.JSONDoc(r, 3, vkit.Classes{})
		q := d2.Render(r, sortOn)
		tr := true
		snaps.VerifResetProcessState()
		outU, sigU, tU, _ := e.call(api, jc, "docs", "TestJ", q, &tr)
		snaps.VerifResetProcessState()
		_, _, tFresh, _ := e.call(api, jc, "docs3", "TestL", q, nil)
		in["updated_to"] = vkit.Clip(q, 1000)
		if outU == vkit.Updated || (outU == vkit.Passed && tFresh == t1) {
			if tU != tFresh {
				c.Violate("updated-text-not-canonical", "", fmt.Sprintf("%s options=%s: after update the slot holds %s, a fresh recording of the same document stores %s", api, jc.Name, vkit.Q(tU), vkit.Q(tFresh)), in)
				return
			}
			if g2, err := vkit.ParseJSON(tU); err != nil || d2.Equal(g2, !sortOn) != "" {
				c.Violate("updated-text-other-value", "", fmt.Sprintf("%s options=%s: updated text %s does not decode to the new document (%v)", api, jc.Name, vkit.Q(tU), err), in)
				return
			}
			c.Count("update_checks", 1)
		} else {
			c.Violate("update-outcome", "", fmt.Sprintf("%s options=%s: update to another document gave %s: %s", api, jc.Name, outU, firstErr(sigU)), in)
			return
		}
	}
	c.Count("forms:"+f1+"/"+f2, 1)
	c.Count("options:"+jc.Name, 1)
	for k := range cl {
		c.Count("class:"+k, 1)
	}
	c.Case(vkit.Hash(p1, p2, jc.Name, api, f1, f2), len(cl) > 0)
	if i%499 == 0 {
		c.Sample(in)
	}
}

func nonDir(diffs []string, d vkit.Digest) []string {
	var out []string
	for _, x := range diffs {
		var what, p string
		fmt.Sscanf(x, "%s %s", &what, &p)
		if e, ok := d[p]; ok && e.Type == "d" && (what == "mtime") {
			continue
		}
		out = append(out, x)
	}
	return out
}

func c14Invalid(c *vkit.Ctx, r *rand.Rand, i int) {
	bad, class := vkit.InvalidJSON(r)
	if json.Valid([]byte(bad)) {
		c.Count("premise_invalid_is_valid_skipped", 1)
		return
	}
	api := pick2(r, "json", "sjson")
	form := pick2(r, "string", "bytes")
	t := true
	type md struct {
		name string
		m    vkit.Mode
		upd  *bool
	}
	m := []md{{"create-allowed", vkit.Mode{}, nil}, {"Update(true)", vkit.Mode{}, &t}, {"UPDATE_SNAPS=true", vkit.Mode{UpdateVar: "true"}, nil}, {"CI", vkit.Mode{CI: true}, nil}}[r.IntN(4)]
	existing := r.IntN(2) == 0
	in := map[string]any{"api": api, "invalid": bad, "class": class, "mode": m.name, "form": form, "slot_exists": existing}
	e := &c14env{c: c, root: vkit.MkScratch("c14i")}
	defer os.RemoveAll(e.root)
	snaps.VerifSetNoColor(true)
	jc := jsonCfg{"default", nil, false}
	if existing {
		snaps.VerifSetMode(false, "")
		snaps.VerifResetProcessState()
		if o, _, _, _ := e.call(api, jc, "docs", "TestJ", `{"ok":true}`, nil); o != vkit.Added {
			panic("harness: could not seed slot")
		}
	}
	snaps.VerifSetMode(m.m.CI, m.m.UpdateVar)
	snaps.VerifResetProcessState()
	vkit.Backdate(e.root)
	d0 := vkit.TakeDigest(e.root)
	var arg any = formArg(form, bad, nil)
	if bad == "" && form == "bytes" && r.IntN(2) == 0 {
		// the empty document as a byte slice that was never filled in
		arg, in["form"] = []byte(nil), "nil-bytes"
		c.Count("invalid_nil_byte_slice", 1)
	}
	// with and without matchers that have nothing to object to
	mk := pick2(r, "none", "none", "lenient-any-on-missing-path", "any-without-paths", "lenient-type-on-missing-path")
	e.matchers = nil
	switch mk {
	case "lenient-any-on-missing-path":
		e.matchers = []match.JSONMatcher{match.Any("zz.missing").ErrOnMissingPath(false)}
	case "any-without-paths":
		e.matchers = []match.JSONMatcher{match.Any()}
	case "lenient-type-on-missing-path":
		e.matchers = []match.JSONMatcher{match.Type[string]("zz.missing").ErrOnMissingPath(false)}
	}
	in["matchers"] = mk
	c.Count("invalid_with_matchers:"+mk, 1)
	out, sig, _, _ := e.call(api, jc, "docs", "TestJ", arg, m.upd)
	e.matchers = nil
	c.Count("invalid_calls", 1)
	c.Count("invalid:"+class, 1)
	if out != vkit.Failed {
		c.Violate("invalid-json-not-failed", "", fmt.Sprintf("%s %s (%s) mode %s: outcome %s (errors=%d logs=%d)", api, vkit.Q(bad), class, m.name, out, len(sig.Errors), len(sig.Logs)), in)
	}
	if df := nonDir(d0.Diff(vkit.TakeDigest(e.root), false), d0); len(df) > 0 {
		c.Violate("invalid-json-wrote", "", fmt.Sprintf("%s %s mode %s: %v", api, vkit.Q(bad), m.name, df), in)
	}
	c.Case(vkit.Hash("inv", bad, api, m.name, form, existing), true)
}

// c14Concurrent (-race build): the same Go value / string / []byte documents are
// recorded from 8 goroutines at once, each into its own file; every stored text must
// equal the text the same input stores when recorded alone. The race detector
// watches the encoder and formatter buffers meanwhile.
func c14Concurrent(c *vkit.Ctx) {
	n := c.N(40, 1500)
	// few Ps and large documents: a goroutine is then regularly preempted between
	// encoding and formatting, which is when shared encoder state would be reused
	defer runtime.GOMAXPROCS(runtime.GOMAXPROCS(2))
	for i := 0; i < n; i++ {
		if !c.Mine(i) {
			continue
		}
		r := c.Rand("conc", i)
		root := vkit.MkScratch("c14c")
		snaps.VerifSetMode(false, "")
		snaps.VerifSetNoColor(true)
		snaps.VerifResetProcessState()
		type job struct {
			input any
			want  string
			name  string
		}
		var jobs []job
		for g := 0; g < 12; g++ {
			d := vkit.JSONObjectDoc(r, 3, 2, vkit.Classes{})
			// pad so that documents are big enough for buffer reuse to matter
			d.Keys = append(d.Keys, "pad")
			d.Vals = append(d.Vals, &vkit.JNode{Kind: "str", S: strings.Repeat(fmt.Sprintf("g%d-", g), 300000)})
			v, ok := goFromTree(d)
			if !ok {
				continue
			}
			b, err := json.Marshal(v)
			if err != nil {
				continue
			}
			want := strings.TrimSuffix(string(tpretty.PrettyOptions(b, &tpretty.Options{SortKeys: true, Indent: " "})), "\n")
			var in any = v
			switch r.IntN(3) {
			case 0:
				in = string(b)
			case 1:
				in = append([]byte(nil), b...)
			}
			jobs = append(jobs, job{in, want, fmt.Sprintf("g%d", g)})
		}
		var wg sync.WaitGroup
		for _, j := range jobs {
			wg.Add(1)
			go func(j job) {
				defer wg.Done()
				t := vkit.NewT("TestConc_" + j.name)
				snaps.WithConfig(snaps.Dir(root), snaps.Filename(j.name)).MatchStandaloneJSON(t, j.input)
				snaps.WithConfig(snaps.Dir(root), snaps.Filename("multi_"+j.name)).MatchJSON(t, j.input)
				t.Finish()
			}(j)
		}
		wg.Wait()
		for _, j := range jobs {
			b, _ := os.ReadFile(filepath.Join(root, j.name+"_1.snap.json"))
			if string(b) != j.want {
				c.Violate("concurrent-call-stored-another-document", "", fmt.Sprintf("%s: stored %s, its own canonical text is %s", j.name, vkit.Q(string(b)), vkit.Q(j.want)), map[string]any{"goroutine": j.name})
			}
			ents, _ := vkit.ReadSnapFile(filepath.Join(root, "multi_"+j.name+".snap"))
			if len(ents) != 1 || ents[0].Body != j.want {
				c.Violate("concurrent-call-stored-another-document", "", fmt.Sprintf("multi_%s: %d entries", j.name, len(ents)), map[string]any{"goroutine": j.name})
			}
			c.Count("concurrent_documents_checked", 2)
		}
		os.RemoveAll(root)
		c.Case(vkit.Hash("c14conc", i), true)
	}
}
