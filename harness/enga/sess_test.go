package enga

import (
	"errors"
	"fmt"
	"os"
	"os/signal"
	"path/filepath"
	"sort"
	"strings"
	"syscall"

	krpretty "github.com/kr/pretty"
	tpretty "github.com/tidwall/pretty"

	"github.com/gkampitakis/go-snaps/match"
	"github.com/gkampitakis/go-snaps/snaps"

	"verifharness/vkit"
)

// Val is a value handed to a Match* call.
type Val struct {
	Kind string `json:"kind"` // "str" | "go" | "json" | "yaml"
	S    string `json:"s"`    // the text (str/json/yaml) or the kr/pretty rendering (go)
	Form string `json:"form,omitempty"`
	G    any    `json:"-"`
}

// Op is one Match* call of a generated history.
type Op struct {
	API  string `json:"api"` // snap | json | yaml | ssnap | sjson
	Test string `json:"test"`
	File string `json:"file,omitempty"` // Filename option ("" = unset)
	Ext  string `json:"ext,omitempty"`
	Upd  *bool  `json:"upd,omitempty"`
	Val  Val    `json:"val"`
	Fail string `json:"fail,omitempty"` // "invalid": input is not a valid document; "matcher": a matcher fails
	// FailOnlyExec: when >= 1 the failure applies only to that execution (1-based) of the test in a
	// process; in the other executions the same call is made without the failing matcher
	FailOnlyExec int   `json:"fail_only_exec,omitempty"`
	AltVal       *Val  `json:"alt_val,omitempty"` // the (valid) value of the executions in which the call is not rejected
	Multi        []Val `json:"multi,omitempty"`
	// Empty: MatchSnapshot(t) with no values at all (an empty slice spread into the call):
	// a warning is logged, no slot is addressed, no ordinal consumed
	Empty bool `json:"empty,omitempty"`
	// Fault: while this call runs, writes that take a file beyond FaultAt bytes fail with
	// EFBIG (RLIMIT_FSIZE; directories and empty files can still be created, files can be
	// opened, truncated and closed): the disk is full / a quota is hit during this call only
	// JSONCfg: the Config of this call carries the JSON format option (MatchJSON and
	// MatchStandaloneJSON then format with it instead of the defaults)
	JSONCfg *snaps.JSONConfig `json:"json_cfg,omitempty"`
	// Blocked: while this call runs a regular file sits where the (not yet existing) snapshot
	// directory is wanted; it is removed again right after the call
	Blocked bool              `json:"blocked,omitempty"`
	Fault   bool              `json:"fault,omitempty"`
	FaultAt int64             `json:"fault_at,omitempty"`
}

func (o Op) standalone() bool { return o.API == "ssnap" || o.API == "sjson" }

// Problem is one discrepancy between the real code and the oracle.
type Problem struct {
	Kind   string
	Detail string
	Class  string
}

// Sess is one simulated snapshot directory with its lockstep model.
type Sess struct {
	Root  string
	Store *vkit.Store
	ord   map[string]int              // running ordinals by registry key
	touch map[*vkit.T]map[string]bool // keys an execution touched (reset at its end)
	// headers that some call of the history may address, per file path
	Addressable  map[string]map[string]bool
	StrictWrites bool // judge "no write at all" by mtime/inode, not only by bytes
	Steps        int
	// one Config object per option set and process instead of one per call
	ShareConfigs bool
	cfgs         map[string]*snaps.Config
	// options applied to a zero-value snaps.Config instead of going through WithConfig
	ZeroConfigs bool
	// called before every step of a simulated process (foreign edits between calls)
	BeforeStep func(o Op)
	Mode       vkit.Mode // mode of the simulated process that is running
	// Sub: the snapshot directory is Root/Sub and does not exist until a call creates it
	// (may contain `%`); "" = Root itself, which exists
	Sub string
}

// Dir is the directory handed to snaps.Dir.
func (s *Sess) Dir() string { return filepath.Join(s.Root, s.Sub) }

// SubDirs are the not-yet-existing snapshot directories sessions are given.
var SubDirs = []string{"nested/snaps", "coverage 100%/__snapshots__", "r%d/%s", "a"}

// ForeignEditStandalone replaces the bytes of an existing standalone file behind the
// library's back (another tool, a hand edit, a checkout) and mirrors it in the model.
func (s *Sess) ForeignEditStandalone(path, content string) {
	sl := s.Store.Files[path]
	if len(sl) != 1 || sl[0].ID != "" {
		panic("ForeignEditStandalone: not a standalone file of the model: " + path)
	}
	if err := os.WriteFile(path, []byte(content), 0o644); err != nil {
		panic(err)
	}
	sl[0].Text, sl[0].Raw = content, content
}

// ForeignEditEntry changes one letter in the stored body of one entry of a multi-entry
// file behind the library's back - the file keeps its length, its inode and (the harness
// backdates every mtime before each call) its modification time - and mirrors it in the
// model. It reports false when no entry of the file has a letter to change.
func (s *Sess) ForeignEditEntry(path string, pick func(n int) int) bool {
	sl := s.Store.Files[path]
	var cands []int
	for i, e := range sl {
		if e.ID != "" && strings.IndexFunc(e.Raw, func(r rune) bool { return r >= 'a' && r <= 'z' }) >= 0 {
			cands = append(cands, i)
		}
	}
	if len(cands) == 0 {
		return false
	}
	render := func() []byte {
		es := make([]vkit.SnapEntry, len(sl))
		for k, e := range sl {
			es[k] = vkit.SnapEntry{ID: e.ID, Body: e.Raw}
		}
		return []byte(vkit.RenderSnapFile(es))
	}
	// only files whose bytes are exactly the plain rendering of their entries are edited (a
	// file a failed write left in another layout is left alone)
	if b, err := os.ReadFile(path); err != nil || string(b) != string(render()) {
		return false
	}
	i := cands[pick(len(cands))]
	raw := []byte(sl[i].Raw)
	for k, c := range raw {
		if c >= 'a' && c <= 'z' {
			if c == 'q' {
				raw[k] = 'j'
			} else {
				raw[k] = 'q'
			}
			break
		}
	}
	sl[i].Raw = string(raw)
	sl[i].Text = vkit.Unescape(sl[i].Raw)
	nb := render()
	f, err := os.OpenFile(path, os.O_WRONLY, 0)
	if err != nil {
		panic(err)
	}
	f.WriteAt(nb, 0) // in place: same inode, same size
	f.Close()
	return true
}

// MultiFiles lists the multi-entry files the model currently holds, sorted.
func (s *Sess) MultiFiles() []string {
	var out []string
	for p, sl := range s.Store.Files {
		if len(sl) > 0 && sl[0].ID != "" {
			out = append(out, p)
		}
	}
	sort.Strings(out)
	return out
}

// RemoveSnapshotDir removes the snapshot directory with everything in it behind the
// library's back (regenerating all snapshots from scratch, `git clean`) and mirrors it in
// the model. Only for sessions whose directory is not the scratch root itself.
func (s *Sess) RemoveSnapshotDir() bool {
	if s.Sub == "" {
		return false
	}
	if _, err := os.Lstat(s.Dir()); err != nil {
		return false
	}
	os.RemoveAll(s.Dir())
	for p := range s.Store.Files {
		if strings.HasPrefix(p, s.Dir()+string(filepath.Separator)) {
			delete(s.Store.Files, p)
		}
	}
	return true
}

// StandaloneFiles lists the standalone files the model currently holds, sorted.
func (s *Sess) StandaloneFiles() []string {
	var out []string
	for p, sl := range s.Store.Files {
		if len(sl) == 1 && sl[0].ID == "" {
			out = append(out, p)
		}
	}
	sort.Strings(out)
	return out
}

const defaultBase = "sess_test" // base name of this file: what Filename defaults to

func NewSess(prefix string) *Sess {
	return &Sess{Root: vkit.MkScratch(prefix), Store: vkit.NewStore(), ord: map[string]int{},
		touch: map[*vkit.T]map[string]bool{}, Addressable: map[string]map[string]bool{}, StrictWrites: true}
}

// startDir is the working directory the test binary was started in.
var startDir, _ = os.Getwd()

// NewSessBelowStartDir is NewSess with the snapshot tree below the directory the process
// was started in (where a package's snapshots normally are).
func NewSessBelowStartDir(prefix string) *Sess {
	s := NewSess(prefix)
	os.RemoveAll(s.Root)
	d, err := os.MkdirTemp(startDir, "verif-"+prefix+"-")
	if err != nil {
		panic(err)
	}
	s.Root = d
	return s
}

func (s *Sess) Close() {
	os.Chdir(startDir)
	os.RemoveAll(s.Root)
}

// NewProcess simulates the start of a fresh test process.
func (s *Sess) NewProcess(m vkit.Mode, noColor bool) {
	snaps.VerifResetProcessState()
	snaps.VerifSetMode(m.CI, m.UpdateVar)
	snaps.VerifSetNoColor(noColor)
	s.ord = map[string]int{}
	s.touch = map[*vkit.T]map[string]bool{}
	s.cfgs = nil
	s.Mode = m
}

// ReportOnlyClean calls snaps.Clean in the middle of the simulated process when the mode
// lets it report only (it may not delete and no sorting is asked for): a TestMain that runs
// the tests twice, or that snapshots through a handle of its own before and after. Clean's
// output is discarded. It reports whether Clean was called and whether it changed anything
// under the session's root.
func (s *Sess) ReportOnlyClean() (called bool, changed []string) {
	if !s.Mode.CI && (s.Mode.UpdateVar == "true" || s.Mode.UpdateVar == "clean") {
		return false, nil
	}
	vkit.Backdate(s.Root)
	d0 := vkit.TakeDigest(s.Root)
	old := os.Stdout
	if null, err := os.OpenFile(os.DevNull, os.O_WRONLY, 0); err == nil {
		os.Stdout = null
		defer func() { os.Stdout = old; null.Close() }()
	}
	snaps.Clean(nil)
	return true, d0.Diff(vkit.TakeDigest(s.Root), false)
}

// EndExec ends one test execution: runs the cleanups and resets the model ordinals.
func (s *Sess) EndExec(t *vkit.T) {
	t.Finish()
	for k := range s.touch[t] {
		delete(s.ord, k)
	}
	delete(s.touch, t)
}

func (s *Sess) config(o Op) *snaps.Config {
	// ShareConfigs: one Config object per option set for the whole simulated process, the
	// way a package-level `var cfg = snaps.WithConfig(...)` is used by every test and
	// every entry point (fresh Configs per call hide calls that write to their receiver)
	if s.ShareConfigs {
		k := fmt.Sprintf("%q|%q|%v|%v", o.File, o.Ext, o.Upd != nil && *o.Upd, o.JSONCfg)
		if o.JSONCfg != nil {
			k += fmt.Sprintf("|%+v", *o.JSONCfg)
		}
		if o.Upd == nil {
			k += "|unset"
		}
		if c, ok := s.cfgs[k]; ok {
			return c
		}
		if s.cfgs == nil {
			s.cfgs = map[string]*snaps.Config{}
		}
		c := s.buildConfig(o)
		s.cfgs[k] = c
		return c
	}
	return s.buildConfig(o)
}

func (s *Sess) buildConfig(o Op) *snaps.Config {
	opts := []func(*snaps.Config){snaps.Dir(s.Dir())}
	if o.File != "" {
		opts = append(opts, snaps.Filename(o.File))
	}
	if o.Ext != "" {
		opts = append(opts, snaps.Ext(o.Ext))
	}
	if o.Upd != nil {
		opts = append(opts, snaps.Update(*o.Upd))
	}
	if o.JSONCfg != nil {
		opts = append(opts, snaps.JSON(*o.JSONCfg))
	}
	if s.ZeroConfigs {
		var c snaps.Config
		for _, f := range opts {
			f(&c)
		}
		return &c
	}
	return snaps.WithConfig(opts...)
}

// MultiPath is the C11 location of a multi-entry file.
func (s *Sess) MultiPath(o Op) string {
	base := o.File
	if base == "" {
		base = defaultBase
	}
	return filepath.Join(s.Dir(), base+".snap"+o.Ext)
}

// StandalonePath is the C11 location of the k-th standalone call.
func (s *Sess) StandalonePath(o Op, k int) string {
	base := o.File
	if base == "" {
		base = strings.ReplaceAll(o.Test, "/", "_")
	}
	ext := o.Ext
	if o.API == "sjson" && ext == "" {
		ext = ".json"
	}
	return filepath.Join(s.Dir(), fmt.Sprintf("%s_%d.snap%s", base, k, ext))
}

var defaultJSONOpts = &tpretty.Options{SortKeys: true, Indent: " "}

// Formatted returns the text the call hands to storage and the raw body the
// documented format stores for it. ok=false when the input is not a document.
func Formatted(o Op) (text, raw string) {
	switch o.API {
	case "snap":
		parts := []string{o.Val.fmt()}
		for _, v := range o.Multi {
			parts = append(parts, v.fmt())
		}
		text = strings.Join(parts, "\n")
		return text, vkit.Escape(text)
	case "ssnap":
		return o.Val.fmt(), o.Val.fmt()
	case "json", "sjson":
		po := defaultJSONOpts
		if o.JSONCfg != nil {
			po = &tpretty.Options{Width: o.JSONCfg.Width, Indent: o.JSONCfg.Indent, SortKeys: o.JSONCfg.SortKeys}
		}
		text = strings.TrimSuffix(string(tpretty.PrettyOptions([]byte(o.Val.S), po)), "\n")
		return text, text
	case "yaml":
		return o.Val.S, vkit.Escape(o.Val.S)
	}
	panic("bad api " + o.API)
}

// fmt is the formatted text of a MatchSnapshot/MatchStandaloneSnapshot value:
// kr/pretty's rendering (the formatter is part of the trusted base; note that it
// is not the identity on strings: tabs, \v and \f go through a tabwriter).
func (v Val) fmt() string {
	if v.Kind == "go" {
		return v.S
	}
	return krpretty.Sprint(v.S)
}

// failingMarshaler is a Go value the standard JSON and YAML encoders reject: its own
// marshal methods return an error (a sensor that could not be read).
type failingMarshaler struct{ Why string }

func (f failingMarshaler) MarshalJSON() ([]byte, error) { return nil, errors.New(f.Why) }
func (f failingMarshaler) MarshalYAML() ([]byte, error) { return nil, errors.New(f.Why) }

func (v Val) arg() any {
	switch v.Kind {
	case "marshal-error":
		return map[string]any{"reading": failingMarshaler{Why: v.S}}
	case "go":
		return v.G
	default:
		if v.Form == "bytes" {
			return spareBytes(v.S)
		}
		return v.S
	}
}

var fsizeOrig syscall.Rlimit

func init() {
	// without this a write beyond RLIMIT_FSIZE kills the process instead of returning EFBIG
	signal.Ignore(syscall.SIGXFSZ)
	syscall.Getrlimit(syscall.RLIMIT_FSIZE, &fsizeOrig)
}

func faultOn(at int64) {
	if err := syscall.Setrlimit(syscall.RLIMIT_FSIZE, &syscall.Rlimit{Cur: uint64(at), Max: fsizeOrig.Max}); err != nil {
		panic("cannot lower RLIMIT_FSIZE: " + err.Error())
	}
}

func faultOff() {
	if err := syscall.Setrlimit(syscall.RLIMIT_FSIZE, &fsizeOrig); err != nil {
		panic("cannot restore RLIMIT_FSIZE: " + err.Error())
	}
}

// resync makes the model agree with what a failed (and reported) write left at path. A
// multi-entry file that no longer parses is removed, as its owner would do.
func (s *Sess) resync(path string, standalone bool) string {
	b, err := os.ReadFile(path)
	if err != nil {
		delete(s.Store.Files, path)
		return "absent"
	}
	if standalone {
		s.Store.Files[path] = []vkit.Slot{{ID: "", Text: string(b), Raw: string(b)}}
		return "standalone-as-left"
	}
	ents, torn := vkit.ReadSnapFile(path)
	if len(torn) > 0 {
		os.Remove(path)
		delete(s.Store.Files, path)
		return "torn-removed"
	}
	sl := make([]vkit.Slot, len(ents))
	for i, e := range ents {
		sl[i] = vkit.Slot{ID: e.ID, Text: vkit.Unescape(e.Body), Raw: e.Body}
	}
	s.Store.Files[path] = sl
	if len(b) == 0 {
		return "emptied"
	}
	return "parsed-as-left"
}

const spareFill = "\xa5SPARE\xa5"

// spareBytes is the caller's buffer: the document followed by spare capacity the caller
// still owns (a slice of a bigger buffer); neither part is the library's to write.
func spareBytes(s string) []byte {
	b := make([]byte, len(s), len(s)+len(spareFill))
	copy(b, s)
	copy(b[len(s):cap(b)], spareFill)
	return b
}

// spareIntact reports what a call did to a buffer made by spareBytes.
func spareIntact(a any, want string) string {
	b, ok := a.([]byte)
	if !ok {
		return ""
	}
	if string(b) != want {
		return "the bytes handed to the call were changed"
	}
	if cap(b) >= len(b)+len(spareFill) && string(b[len(b):len(b)+len(spareFill)]) != spareFill {
		return fmt.Sprintf("the call wrote behind the end of the slice it was given (spare capacity now %q)", b[len(b):len(b)+len(spareFill)])
	}
	return ""
}

// nonDirDiff drops directory entries from a digest diff.
func nonDirDiff(df []string) []string {
	var out []string
	for _, d := range df {
		if !strings.HasSuffix(d, "/") {
			out = append(out, d)
		}
	}
	return out
}

// Invoke performs the real call. It returns what the call did to the caller's buffer
// ("" = nothing), when the value was handed over as bytes.
func (s *Sess) Invoke(t *vkit.T, o Op) string {
	c := s.config(o)
	first := o.Val.arg()
	switch o.API {
	case "snap":
		args := []any{first}
		for _, v := range o.Multi {
			args = append(args, v.arg())
		}
		c.MatchSnapshot(t, args...)
	case "ssnap":
		c.MatchStandaloneSnapshot(t, first)
	case "json":
		if o.Fail == "matcher" {
			c.MatchJSON(t, first, match.Any("no.such.path.zz"))
		} else {
			c.MatchJSON(t, first)
		}
	case "sjson":
		if o.Fail == "matcher" {
			c.MatchStandaloneJSON(t, first, match.Any("no.such.path.zz"))
		} else {
			c.MatchStandaloneJSON(t, first)
		}
	case "yaml":
		if o.Fail == "matcher" {
			c.MatchYAML(t, first, match.Any("$.no.such.path.zz"))
		} else {
			c.MatchYAML(t, first)
		}
	}
	if o.Val.Form == "bytes" && o.Val.Kind != "go" && o.Val.Kind != "marshal-error" {
		return spareIntact(first, o.Val.S)
	}
	return ""
}

// StepResult is what one lockstep step observed.
type StepResult struct {
	K        int
	Path     string
	Expected string
	Got      string
	Signals  vkit.Signals
	Problems []Problem
	Faulted  string // how a failed-and-reported faulted write left the file ("" = no fault took effect)
}

// hdrClass is the known-findings predicate "body-line-equals-addressed-header":
// some body the file held before the call contains a whole line equal to the
// header of the slot this call addresses. Nothing else is recognised by it.
func (s *Sess) hdrClass(id string, before []vkit.Slot) string {
	if id == "" {
		return ""
	}
	h := "[" + id + "]"
	for _, e := range before {
		for _, l := range strings.Split(e.Raw, "\n") {
			if l == h {
				return "body-line-equals-addressed-header"
			}
		}
	}
	return ""
}

// AddAddressable declares that slot header "[id]" may be addressed in file.
func (s *Sess) AddAddressable(file, id string) {
	if s.Addressable[file] == nil {
		s.Addressable[file] = map[string]bool{}
	}
	s.Addressable[file]["["+id+"]"] = true
}

// Step performs one call in lockstep with the model and returns every
// discrepancy between what the library did and what the properties allow.
func (s *Sess) Step(t *vkit.T, o Op, m vkit.Mode) StepResult {
	s.Steps++
	var res StepResult
	if o.Empty {
		vkit.Backdate(s.Root)
		d0 := vkit.TakeDigest(s.Root)
		s.config(o).MatchSnapshot(t)
		res.Signals = t.Take()
		res.Got, res.Expected = "noop", "noop"
		if len(res.Signals.Errors) > 0 {
			res.Problems = append(res.Problems, Problem{Kind: "call-without-values-reported-a-failure", Detail: firstErr(res.Signals)})
		}
		if df := d0.Diff(vkit.TakeDigest(s.Root), !s.StrictWrites); len(nonDirDiff(df)) > 0 {
			res.Problems = append(res.Problems, Problem{Kind: "call-without-values-wrote", Detail: fmt.Sprint(df)})
		}
		return res
	}
	mayCreate, mayUpdate := vkit.Perm(m, o.Upd)

	var key, path, id string
	if o.standalone() {
		key = "S|" + s.StandalonePath(o, -999)
	} else {
		path = s.MultiPath(o)
		key = "M|" + path + "|" + o.Test
	}
	s.ord[key]++
	k := s.ord[key]
	if s.touch[t] == nil {
		s.touch[t] = map[string]bool{}
	}
	s.touch[t][key] = true
	res.K = k
	if o.standalone() {
		path = s.StandalonePath(o, k)
		id = ""
	} else {
		id = vkit.SlotID(o.Test, k)
	}
	res.Path = path

	var text, raw string
	var before []vkit.Slot
	var saved *vkit.Store
	if o.Fault {
		saved = s.Store.Clone()
	}
	if o.Fail != "" {
		res.Expected = vkit.Failed
	} else {
		text, raw = Formatted(o)
		before = append(before, s.Store.Files[path]...)
		res.Expected = s.Store.Match(path, id, text, raw, mayCreate, mayUpdate)
	}
	mutating := res.Expected == vkit.Added || res.Expected == vkit.Updated

	blocked := false
	if o.Blocked && s.Sub != "" {
		if _, err := os.Lstat(s.Dir()); os.IsNotExist(err) {
			os.MkdirAll(filepath.Dir(s.Dir()), 0o755)
			if os.WriteFile(s.Dir(), []byte("a regular file where the snapshot directory is wanted"), 0o644) == nil {
				blocked = true
				defer os.Remove(s.Dir()) // the obstacle is gone when the next call comes
			}
		}
	}
	vkit.Backdate(s.Root)
	d0 := vkit.TakeDigest(s.Root)
	bufProblem := ""
	func() {
		if o.Fault {
			faultOn(o.FaultAt)
			defer faultOff() // also when the library panics: the harness must be able to write its witness
		}
		bufProblem = s.Invoke(t, o)
	}()
	res.Signals = t.Take()
	res.Got = vkit.Classify(res.Signals)
	if blocked && mutating && res.Got == vkit.Failed {
		// the directory could not be created and the call said so; nothing was stored
		s.Store.Files[path] = before
		if len(before) == 0 {
			delete(s.Store.Files, path)
		}
		res.Faulted = "directory-blocked"
		res.Expected = vkit.Failed
		return res
	}
	if o.Fault && mutating && res.Got == vkit.Failed {
		// the write failed and the call said so: the model takes over what is on disk now.
		// (Anything else - "added", "updated", a pass - is a claim that the value is stored
		// and is judged below like every other call.)
		s.Store.Files = saved.Files
		res.Faulted = s.resync(path, o.standalone())
		res.Expected = vkit.Failed
		return res
	}
	d1 := vkit.TakeDigest(s.Root)

	add := func(kind, class, detail string) {
		res.Problems = append(res.Problems, Problem{Kind: kind, Class: class, Detail: detail})
	}
	if bufProblem != "" {
		add("caller-buffer-modified", "", fmt.Sprintf("%s %s k=%d: %s", o.API, o.Test, k, bufProblem))
		return res
	}

	if res.Got != res.Expected {
		class := ""
		if res.Got == vkit.Passed && (o.API == "snap" || o.API == "yaml") {
			for _, e := range before {
				if e.ID == id && e.Text != text && vkit.Unescape(e.Text) == vkit.Unescape(text) {
					class = "terminator-escape-conflation"
				}
			}
		}
		if class == "" && !o.standalone() {
			class = s.hdrClass(id, before)
		}
		kind := "outcome"
		if res.Got == vkit.Anomaly {
			kind = "outcome-anomaly"
		} else if res.Got == vkit.Passed && res.Expected == vkit.Failed {
			kind = "silent-pass"
		}
		add(kind, class, fmt.Sprintf("call %s %s k=%d on %s: expected %s, got %s (errors=%d logs=%d) first error: %s",
			o.API, o.Test, k, filepath.Base(path), res.Expected, res.Got, len(res.Signals.Errors), len(res.Signals.Logs), firstErr(res.Signals)))
		return res
	}
	if res.Got == vkit.Failed && strings.TrimSpace(vkit.StripANSI(res.Signals.Errors[0])) == "" {
		add("empty-error-text", "", "the single Error carried no text")
	}

	// directory effects
	rel, _ := filepath.Rel(s.Root, path)
	for _, d := range d0.Diff(d1, false) {
		f := strings.SplitN(d, " ", 2)
		what, p := f[0], f[1]
		if e, ok := d1[p]; ok && e.Type == "d" {
			// directory mtimes move when a file is created in them; a NEW directory is a write
			// like any other: only a call that stores something may create the directories
			// leading to its file
			if _, was := d0[p]; !was && !(mutating && strings.HasPrefix(rel, strings.TrimSuffix(p, "/")+"/")) {
				add("directory-created", "", fmt.Sprintf("%s after %s %s k=%d (expected outcome %s, file %s)", d, o.API, o.Test, k, res.Expected, rel))
			}
			continue
		}
		if e, ok := d0[p]; ok && e.Type == "d" {
			continue
		}
		if mutating && p == rel {
			continue
		}
		kind := "foreign-write"
		if !mutating {
			kind = "write-on-nonmutating-call"
		}
		if what == "mtime" || what == "inode" {
			if !s.StrictWrites {
				continue
			}
			kind += "-samebytes"
		}
		class := ""
		if !o.standalone() {
			class = s.hdrClass(id, before)
		}
		add(kind, class, fmt.Sprintf("%s after %s %s k=%d (expected outcome %s)", d, o.API, o.Test, k, res.Expected))
	}
	if len(res.Problems) > 0 {
		return res
	}

	// content of the addressed file
	if mutating {
		if o.standalone() {
			b, err := os.ReadFile(path)
			if err != nil {
				add("standalone-missing", "", err.Error())
			} else if string(b) != text {
				add("standalone-bytes", "", fmt.Sprintf("file %s holds %s, formatted value is %s", filepath.Base(path), vkit.Q(string(b)), vkit.Q(text)))
			}
		} else {
			if p := s.compareFile(path); p != "" {
				add("file-state", s.hdrClass(id, before), p)
			}
		}
	}
	return res
}

func firstErr(s vkit.Signals) string {
	if len(s.Errors) == 0 {
		return ""
	}
	return vkit.Clip(vkit.StripANSI(s.Errors[0]), 200)
}

// compareFile compares what the independent reader finds in path with the model.
func (s *Sess) compareFile(path string) string {
	ents, torn := vkit.ReadSnapFile(path)
	if len(torn) > 0 {
		return "torn: " + strings.Join(torn, "; ")
	}
	want := s.Store.Files[path]
	if len(ents) != len(want) {
		return fmt.Sprintf("%s holds %d entries %v, model %d %v", filepath.Base(path), len(ents), ids(ents), len(want), slotIDs(want))
	}
	for i := range want {
		if ents[i].ID != want[i].ID {
			return fmt.Sprintf("entry %d is [%s], model [%s]", i, ents[i].ID, want[i].ID)
		}
		if ents[i].Body != want[i].Raw {
			return fmt.Sprintf("entry [%s] body %s, model %s", want[i].ID, vkit.Q(ents[i].Body), vkit.Q(want[i].Raw))
		}
	}
	return ""
}

func ids(es []vkit.SnapEntry) []string {
	out := make([]string, len(es))
	for i, e := range es {
		out[i] = e.ID
	}
	return out
}

func slotIDs(es []vkit.Slot) []string {
	out := make([]string, len(es))
	for i, e := range es {
		out[i] = e.ID
	}
	return out
}

// Seed writes a pre-existing well-formed multi-entry file and mirrors it in the model.
func (s *Sess) Seed(path string, slots []vkit.Slot) {
	es := make([]vkit.SnapEntry, len(slots))
	for i, sl := range slots {
		es[i] = vkit.SnapEntry{ID: sl.ID, Body: sl.Raw}
		s.AddAddressable(path, sl.ID)
	}
	os.MkdirAll(filepath.Dir(path), 0o755)
	if err := os.WriteFile(path, []byte(vkit.RenderSnapFile(es)), 0o644); err != nil {
		panic(err)
	}
	s.Store.Files[path] = append([]vkit.Slot(nil), slots...)
}

// goValue draws a Go value from the deterministic-formatting subset.
func goValue(r interface{ IntN(int) int }, depth int) any {
	type pt struct {
		X, Y int
		Name string
	}
	switch x := r.IntN(10); {
	case x == 9 && depth == 3:
		// ONE value that is an empty or nil collection, a typed nil, an empty struct: still a
		// value (a snapshot of it is expected), not "no values"
		return []any{[]any{}, []any(nil), []string{}, map[string]any{}, (*int)(nil), struct{}{}, [0]int{}, error(nil)}[r.IntN(8)]
	case x == 0:
		return r.IntN(1000) - 500
	case x == 1:
		return []string{"a", "b\nc", "---"}[r.IntN(3)]
	case x == 2:
		return r.IntN(2) == 0
	case x == 3:
		return nil
	case x == 4:
		return float64(r.IntN(100)) / 4
	case x == 5 && depth > 0:
		n := r.IntN(4)
		m := map[string]any{}
		for i := 0; i < n; i++ {
			m[fmt.Sprintf("k%d", r.IntN(6))] = goValue(r, depth-1)
		}
		return m
	case x == 6 && depth > 0:
		n := r.IntN(4)
		l := make([]any, n)
		for i := range l {
			l[i] = goValue(r, depth-1)
		}
		return l
	case x == 7:
		return pt{r.IntN(10), r.IntN(10), "p"}
	default:
		return fmt.Sprintf("s%d", r.IntN(50))
	}
}

// Values whose formatted text is (or contains) caller-chosen raw text without being
// of type string: kr/pretty prints the result of GoString() verbatim, and a named
// string type like a string. They carry the same hostile texts as plain strings.
type goStringer struct{ Text string }

func (g goStringer) GoString() string { return g.Text }

type ptrGoStringer struct{ Text string }

func (g *ptrGoStringer) GoString() string { return g.Text }

type namedText string

type report struct {
	Title string
	Body  goStringer
}

// textCarrier wraps the text s in one of those types; the expected formatted text is
// what the (trusted) formatter prints for it.
func textCarrier(r interface{ IntN(int) int }, s string, cl vkit.Classes) Val {
	var g any
	switch r.IntN(4) {
	case 0:
		g = goStringer{Text: s}
		cl["value-gostringer"] = true
	case 1:
		g = &ptrGoStringer{Text: s}
		cl["value-gostringer-pointer"] = true
	case 2:
		g = namedText(s)
		cl["value-named-string-type"] = true
	default:
		g = report{Title: "t", Body: goStringer{Text: s}}
		cl["value-struct-with-gostringer-field"] = true
	}
	return Val{Kind: "go", G: g, S: krpretty.Sprint(g)}
}

func goVal(r interface{ IntN(int) int }) Val {
	g := goValue(r, 3)
	return Val{Kind: "go", G: g, S: krpretty.Sprint(g)}
}
