package enga

import (
	"fmt"
	"math/rand/v2"

	"verifharness/vkit"
)

func init() { register("C03", checkC03) }

// checkC03: every call of a history, over several simulated processes in which
// values change, calls fail midway, tests are re-executed and interleaved, must
// get the outcome the slot model gives for slot (N, k); after every creating or
// rewriting call the independent reader must find the model's entry list:
// same ids, same order, same bodies (one appended at the end, or one replaced).
func checkC03(c *vkit.Ctx) {
	c.P.Rule = "case = generated history (confusable names incl. prefixes and nested subtests, 0-14 calls per test, 1-3 executions per test, calls that fail midway through invalid documents / failing matchers / mismatches without update, sequential or call-interleaved, bodies containing other slots' header lines) run as 3 simulated processes: record, then two runs in which a random subset of calls changes value with Update(false|true|unset) under a random mode; in every 5th history one call in five runs while writes fail (RLIMIT_FSIZE 0 or 1-300 bytes: EFBIG after a successful open): a call whose write failed must report a failure (the model then adopts what it left on disk), any other answer and every later call are judged as always; every 6th history changes one letter inside a stored entry in place between two calls (same inode, size and mtime); every 9th removes the snapshot directory with everything in it between two calls or blocks it with a regular file during one call (the call fails, later calls through the same Config work again); every 7th calls a report-only Clean between two calls of running tests (nothing may change, the slots of later calls stay); a quarter of the sessions have a snapshot directory that does not exist yet (a new directory is a write); some tests make Match* calls from a t.Cleanup callback registered part-way; byte inputs carry spare capacity that is checked after the call; lockstep slot model on outcomes + independent reader on the file after every mutating call; non-trivial = >=2 tests share a file and the history has a prefix-related name pair, >=10 ordinals, a failing call followed by another call, a repeated execution or an addressed-header body line; distinct by hash of history"
	c.P.Assumptions = []string{"VerifResetProcessState simulates a new process", "the same test name is never live twice at once (the real runner runs -count executions one after the other)"}
	n := c.N(10000, 300000)
	for i := 0; i < n; i++ {
		if !c.Mine(i) {
			continue
		}
		r := c.Rand("hist", i)
		h := GenHistory(r, HistOpts{APIs: []string{"snap", "snap", "snap", "json", "yaml", "ssnap", "sjson"}, FailOps: true, NoHuge: true, Twins: true, Skips: true, Cleanups: true})
		c.Guard(histSample(&h), func() { runC03(c, i, &h) })
	}
}

func mutRand(seed int64, run int, test string, idx int) *rand.Rand {
	return rand.New(rand.NewPCG(vkit.Hash(seed, run, test), uint64(idx)+7))
}

func runC03(c *vkit.Ctx, i int, h *History) {
	r := c.Rand("run", i)
	s := NewSess("c03")
	defer s.Close()
	if i%4 == 3 {
		// the snapshot directory does not exist yet (and may contain a percent sign): only a
		// call that stores something may create it
		s.Sub = SubDirs[(i/4)%len(SubDirs)]
		c.Count("sessions_whose_snapshot_directory_does_not_exist_yet", 1)
	}
	s.ShareConfigs = i%2 == 0
	s.ZeroConfigs = i%4 == 1
	if s.ShareConfigs {
		c.Count("histories_through_shared_config_objects", 1)
	}
	s.seedPre(h)
	if i%6 == 4 {
		// between two calls something else changes one letter inside a stored entry, in place
		// (same length, same inode, and - every mtime is backdated before each call - same
		// modification time): the next call that addresses the entry must see the new text
		er := c.Rand("edit", i)
		s.BeforeStep = func(o Op) {
			if er.IntN(4) != 0 {
				return
			}
			if fs := s.MultiFiles(); len(fs) > 0 {
				if s.ForeignEditEntry(fs[er.IntN(len(fs))], er.IntN) {
					c.Count("foreign_in_place_edits_of_stored_entries", 1)
				}
			}
		}
		h.Classes["entries-edited-in-place-between-calls"] = true
	}
	if i%9 == 8 {
		// the directory tree changes while the process runs: the snapshot directory is removed
		// with everything in it between two calls (the next storing call creates it again), and
		// now and then a regular file sits in its place during one call (that call fails; the
		// obstacle is gone afterwards and later calls through the same Config work)
		if s.Sub == "" {
			s.Sub = SubDirs[(i/9)%len(SubDirs)]
		}
		tr := c.Rand("tree", i)
		prev := s.BeforeStep
		s.BeforeStep = func(o Op) {
			if prev != nil {
				prev(o)
			}
			if tr.IntN(6) == 0 && s.RemoveSnapshotDir() {
				c.Count("snapshot_directories_removed_between_calls", 1)
			}
		}
		h.Classes["snapshot-directory-removed-or-blocked-between-calls"] = true
	}
	if i%7 == 5 {
		// Clean is not the end of the process: it is called (report-only) between two calls of
		// tests that are still running; it must change nothing, and the calls that follow
		// address the slots they would have addressed without it
		cr := c.Rand("clean", i)
		prev := s.BeforeStep
		s.BeforeStep = func(o Op) {
			if prev != nil {
				prev(o)
			}
			if cr.IntN(5) != 0 {
				return
			}
			if called, changed := s.ReportOnlyClean(); called {
				c.Count("report_only_Clean_calls_between_two_calls", 1)
				if len(changed) > 0 {
					c.Violate("report-only-clean-changed-the-directory", "", fmt.Sprint(changed), map[string]any{"history": h, "before_op": o})
				}
			}
		}
		h.Classes["Clean-called-between-calls"] = true
	}
	nontrivial := false
	shared := map[string]map[string]bool{}
	for _, t := range h.Tests {
		for j, o := range t.Ops {
			if !o.standalone() {
				if shared[o.File] == nil {
					shared[o.File] = map[string]bool{}
				}
				shared[o.File][t.Name] = true
			}
			if o.Fail != "" && j < len(t.Ops)-1 {
				h.Classes["failing-call-followed-by-call"] = true
			}
		}
	}
	for _, ts := range shared {
		if len(ts) >= 2 {
			for _, k := range []string{"test-calls-snaps.Skip-after-some-calls", "two-live-tests-with-the-same-name-on-different-files", "prefix-related-names", "ordinals>=10", "failing-call-followed-by-call", "repeated-execution", "addressed-header", "yaml-addressed-header"} {
				if h.Classes[k] {
					nontrivial = true
				}
			}
		}
	}
	stopped := false
	for run := 1; run <= 3 && !stopped; run++ {
		mode := vkit.Mode{}
		if run > 1 {
			mode = []vkit.Mode{{}, {}, {CI: true}, {UpdateVar: "true"}, {UpdateVar: "clean"}}[r.IntN(5)]
		}
		var mutate func(tp *TestPlan, idx int, op *Op)
		// write faults (every 5th history): during some calls the disk is full - writes beyond a
		// few bytes (mostly: beyond 0) fail with EFBIG while directories, opens, truncations
		// and closes still work. A call whose write failed must say so (then the model takes
		// over what it left on disk); whatever it says, every LATER call, on this file or
		// another one, is judged as always.
		faults := i%5 == 2
		fault := func(tp *TestPlan, idx int, op *Op) {
			fr := mutRand(c.P.Seed+int64(i), 100+run, tp.Name, idx)
			if i%9 == 8 && fr.IntN(4) == 0 {
				op.Blocked = true // takes effect only while the directory does not exist
			}
			if !faults {
				return
			}
			if fr.IntN(5) != 0 {
				return
			}
			op.Fault = true
			if fr.IntN(3) == 0 {
				op.FaultAt = int64(1 + fr.IntN(300))
			}
		}
		if faults {
			h.Classes["write-faults"] = true
		}
		if faults || i%9 == 8 {
			mutate = fault
		}
		if run > 1 {
			mutate = func(tp *TestPlan, idx int, op *Op) {
				if faults || i%9 == 8 {
					fault(tp, idx, op)
				}
				mr := mutRand(c.P.Seed+int64(i), run, tp.Name, idx)
				if op.Fail != "" || mr.IntN(3) != 0 {
					return
				}
				cl := vkit.Classes{}
				op.Val = genValue(mr, op.API, nil, HistOpts{NoHuge: true}, cl)
				op.Multi = nil
				switch mr.IntN(3) {
				case 0:
					f := false
					op.Upd = &f
				case 1:
					t := true
					op.Upd = &t
				}
			}
		}
		s.RunProcess(r, h, mode, r.IntN(2) == 0, mutate, func(o Op, res StepResult) bool {
			c.Count("calls", 1)
			c.Count("outcome_"+res.Got, 1)
			if res.Expected == vkit.Added || res.Expected == vkit.Updated {
				c.Count("reader_comparisons", 1)
			}
			if o.Fault {
				c.Count("calls_made_while_writes_fail", 1)
			}
			if res.Faulted == "directory-blocked" {
				c.Count("calls_made_while_the_directory_is_blocked", 1)
			}
			if res.Faulted != "" {
				c.Count("failed_writes_reported:"+o.API+":"+res.Faulted, 1)
			}
			if len(res.Problems) == 0 {
				return true
			}
			p := res.Problems[0]
			stopped = true
			if p.Class == "terminator-escape-conflation" {
				c.Count("c02_material_not_judged", 1)
				return false
			}
			c.Violate(p.Kind, p.Class, fmt.Sprintf("process %d mode %+v: %s", run, mode, p.Detail), map[string]any{"history": h, "op": o, "k": res.K})
			return false
		})
	}
	for k := range h.Classes {
		c.Count("class:"+k, 1)
	}
	c.Case(histHash(h), nontrivial)
	c.Sample(histSample(h))
}
