// Package enga is engine A of the harness: one test binary that simulates many
// test processes in-process against the real go-snaps code, with the T-recorder
// standing in for *testing.T, a lockstep reference model and a directory digest
// around every call. It is compiled with `go test -c -tags verif` so that the
// library's stack walk finds a *_test.go frame exactly as in a user's package.
package enga

import (
	"flag"
	"fmt"
	"os"
	"testing"

	"verifharness/vkit"
)

var checks = map[string]func(*vkit.Ctx){}

func register(id string, f func(*vkit.Ctx)) { checks[id] = f }

func TestMain(m *testing.M) {
	flag.Parse()
	prop := os.Getenv("VERIF_PROP")
	if prop == "" {
		os.Exit(m.Run())
	}
	f, ok := checks[prop]
	if !ok {
		fmt.Fprintln(os.Stderr, "enga: no check for", prop)
		os.Exit(3)
	}
	ctx := vkit.NewCtxFromEnv("A")
	f(ctx)
	ctx.Finish()
	os.Exit(0)
}
