package enga

import (
	"fmt"
	"github.com/gkampitakis/go-snaps/match"
	"os"
	"path/filepath"
	"reflect"
	"sort"
	"strings"
	"sync"

	"github.com/gkampitakis/go-snaps/snaps"
	tpretty "github.com/tidwall/pretty"

	"verifharness/vkit"
)

func init() { register("C12", checkC12) }

// fingerprint reads every field of a Config by reflection (pointers are
// dereferenced) so that any mutation of the receiver is visible.
func fingerprint(c *snaps.Config) string {
	var sb strings.Builder
	seen := map[uintptr]bool{} // pointer cycles (a Config that points back to itself) end the walk
	var walk func(v reflect.Value, name string)
	walk = func(v reflect.Value, name string) {
		switch v.Kind() {
		case reflect.Ptr:
			if v.IsNil() {
				fmt.Fprintf(&sb, "%s=nil;", name)
				return
			}
			if seen[v.Pointer()] {
				fmt.Fprintf(&sb, "%s=<seen>;", name)
				return
			}
			seen[v.Pointer()] = true
			fmt.Fprintf(&sb, "%s=&(", name)
			walk(v.Elem(), name)
			sb.WriteString(");")
		case reflect.Struct:
			for i := 0; i < v.NumField(); i++ {
				// synchronised internal state (a memo behind a sync.Once or a mutex) is not an
				// option value: whether it changes behaviour is what the sequence oracles decide
				if hasSync(v.Type().Field(i).Type, map[reflect.Type]bool{}) {
					fmt.Fprintf(&sb, "%s=<internal>;", name+"."+v.Type().Field(i).Name)
					continue
				}
				walk(v.Field(i), name+"."+v.Type().Field(i).Name)
			}
		case reflect.String:
			fmt.Fprintf(&sb, "%s=%q;", name, v.String())
		case reflect.Bool:
			fmt.Fprintf(&sb, "%s=%v;", name, v.Bool())
		case reflect.Int, reflect.Int64, reflect.Int32:
			fmt.Fprintf(&sb, "%s=%d;", name, v.Int())
		default:
			fmt.Fprintf(&sb, "%s=<%s>;", name, v.Kind())
		}
	}
	walk(reflect.ValueOf(c).Elem(), "Config")
	return sb.String()
}

// hasSync reports whether values of type t carry sync / sync/atomic state.
func hasSync(t reflect.Type, seen map[reflect.Type]bool) bool {
	if seen[t] {
		return false
	}
	seen[t] = true
	switch t.Kind() {
	case reflect.Ptr:
		return hasSync(t.Elem(), seen)
	case reflect.Struct:
		if p := t.PkgPath(); p == "sync" || p == "sync/atomic" {
			return true
		}
		for i := 0; i < t.NumField(); i++ {
			if hasSync(t.Field(i).Type, seen) {
				return true
			}
		}
	}
	return false
}

type optSet struct {
	Name string
	File string
	Ext  string
	Upd  *bool
	JSON *snaps.JSONConfig
	Sub  string
}

func (o optSet) build(root string) *snaps.Config {
	opts := []func(*snaps.Config){snaps.Dir(filepath.Join(root, o.Sub))}
	if o.File != "" {
		opts = append(opts, snaps.Filename(o.File))
	}
	if o.Ext != "" {
		opts = append(opts, snaps.Ext(o.Ext))
	}
	if o.Upd != nil {
		opts = append(opts, snaps.Update(*o.Upd))
	}
	if o.JSON != nil {
		opts = append(opts, snaps.JSON(*o.JSON))
	}
	return snaps.WithConfig(opts...)
}

func allOptSets() []optSet {
	t, f := true, false
	var out []optSet
	for _, file := range []string{"", "cf"} {
		for _, ext := range []string{"", ".txt"} {
			for ui, upd := range []*bool{nil, &t, &f} {
				for ji, js := range []*snaps.JSONConfig{nil, {Width: 20, Indent: "\t", SortKeys: false}, {Width: 60, Indent: " ", SortKeys: true}, {Width: 20, Indent: " ", SortKeys: true}} {
					for _, sub := range []string{"", "nested/dir", "rate 50%off"} {
						out = append(out, optSet{Name: fmt.Sprintf("file=%q ext=%q upd=%d json=%d sub=%q", file, ext, ui, ji, sub), File: file, Ext: ext, Upd: upd, JSON: js, Sub: sub})
					}
				}
			}
		}
	}
	return out
}

var entryPoints = []string{"snap", "json", "yaml", "ssnap", "sjson"}

func callEntry(c *snaps.Config, t *vkit.T, api string, pos int) {
	switch api {
	case "snap":
		c.MatchSnapshot(t, fmt.Sprintf("value-%d", pos))
	case "json":
		c.MatchJSON(t, fmt.Sprintf(`{"pos":%d,"b":[1,2,3,4,5,6,7,8,9,10,11,12],"a":"x"}`, pos))
	case "yaml":
		c.MatchYAML(t, fmt.Sprintf("pos: %d\nlist:\n  - a\n", pos))
	case "ssnap":
		c.MatchStandaloneSnapshot(t, fmt.Sprintf("standalone-%d", pos))
	case "sjson":
		c.MatchStandaloneJSON(t, fmt.Sprintf(`{"pos":%d,"b":[1,2,3,4,5,6,7,8,9,10,11,12],"a":"x"}`, pos))
	}
}

// tree lists relative path -> content of every file under root.
func tree(root string) map[string]string {
	out := map[string]string{}
	filepath.Walk(root, func(p string, fi os.FileInfo, err error) error {
		if err == nil && fi.Mode().IsRegular() {
			rel, _ := filepath.Rel(root, p)
			b, _ := os.ReadFile(p)
			out[rel] = string(b)
		}
		return nil
	})
	return out
}

func treeKeys(m map[string]string) []string {
	ks := make([]string, 0, len(m))
	for k := range m {
		ks = append(ks, k)
	}
	sort.Strings(ks)
	return ks
}

// runSeq executes the sequence in a fresh scratch dir, either through one shared
// Config or through a freshly built identical Config per call.
func runSeq(c *vkit.Ctx, o optSet, seq []string, shared bool, in any, other ...bool) (map[string]string, []string, bool) {
	// other[i]: call i is issued from a second test source file (c12other_test.go): the
	// default file name of a multi-entry snapshot is the calling test file's
	isOther := func(i int) bool { return i < len(other) && other[i] }
	root := vkit.MkScratch("c12")
	defer os.RemoveAll(root)
	snaps.VerifResetProcessState()
	snaps.VerifSetMode(false, "")
	snaps.VerifSetNoColor(true)
	t := vkit.NewT("TestC/sub")
	var outcomes []string
	cfg := o.build(root)
	bystander := snaps.WithConfig()
	fpB := fingerprint(bystander)
	ok := true
	for i, api := range seq {
		if !shared {
			cfg = o.build(root)
		}
		if (i+len(seq)+len(o.Name))%3 == 0 {
			// MatchSnapshot without values: logs a warning, does nothing else - every time
			fpE := fingerprint(cfg)
			cfg.MatchSnapshot(t)
			sg := t.Take()
			if fp := fingerprint(cfg); fp != fpE {
				c.Violate("config-mutated-by-call", "", fmt.Sprintf("options {%s}: MatchSnapshot without values (before call %d of %v) changed the Config: %s -> %s", o.Name, i, seq, fpE, fp), in)
				ok = false
			}
			if len(sg.Errors) != 0 || len(sg.Logs) != 1 {
				c.Violate("outcome-depends-on-earlier-calls", "", fmt.Sprintf("options {%s}: MatchSnapshot without values before call %d of %v gave %d errors and %d logs (one warning is logged every time)", o.Name, i, seq, len(sg.Errors), len(sg.Logs)), in)
				ok = false
			}
			c.Count("calls_without_values", 1)
		}
		fp0 := fingerprint(cfg)
		if isOther(i) {
			callEntryOtherFile(cfg, t, api, i)
		} else {
			callEntry(cfg, t, api, i)
		}
		c.Count("fingerprint_checks", 1)
		if fp1 := fingerprint(cfg); fp1 != fp0 {
			c.Violate("config-mutated-by-call", "", fmt.Sprintf("options {%s}: %s (call %d of %v) changed the Config: %s -> %s", o.Name, api, i, seq, fp0, fp1), in)
			ok = false
		}
		outcomes = append(outcomes, vkit.Classify(t.Take()))
	}
	t.Finish()
	if fp := fingerprint(snaps.WithConfig()); fp != fpB {
		c.Violate("defaults-changed", "", fmt.Sprintf("a zero-option WithConfig() fingerprint changed after %v through {%s}: %s -> %s", seq, o.Name, fpB, fp), in)
		ok = false
	}
	if fp := fingerprint(bystander); fp != fpB {
		c.Violate("other-config-changed", "", fmt.Sprintf("an unrelated Config changed after %v: %s -> %s", seq, fpB, fp), in)
		ok = false
	}
	// absolute oracle: the C11 location function for this option set and sequence
	if ok {
		want := map[string]bool{}
		sk := map[string]int{}
		for i, api := range seq {
			if o.Upd != nil && !*o.Upd {
				break // Update(false): nothing may be created
			}
			base, ext := o.File, o.Ext
			switch api {
			case "ssnap", "sjson":
				if base == "" {
					base = "TestC_sub"
				}
				if api == "sjson" && ext == "" {
					ext = ".json"
				}
				sk[base+ext]++ // the ordinal counts calls with the same file name pattern
				want[filepath.Join(o.Sub, fmt.Sprintf("%s_%d.snap%s", base, sk[base+ext], ext))] = true
			default:
				if base == "" {
					base = "c12_test"
					if isOther(i) {
						base = "c12other_test"
					}
				}
				want[filepath.Join(o.Sub, base+".snap"+ext)] = true
			}
		}
		got := tree(root)
		// absolute oracle for behaviour: JSON text is formatted by this Config's own options
		// (or the documented defaults when it has none), whatever other Configs did before
		popts := &tpretty.Options{SortKeys: true, Indent: " "}
		if o.JSON != nil {
			popts = &tpretty.Options{Width: o.JSON.Width, Indent: o.JSON.Indent, SortKeys: o.JSON.SortKeys}
		}
		for i, api := range seq {
			if (api != "json" && api != "sjson") || (o.Upd != nil && !*o.Upd) {
				continue
			}
			wantText := strings.TrimSuffix(string(tpretty.PrettyOptions([]byte(fmt.Sprintf(`{"pos":%d,"b":[1,2,3,4,5,6,7,8,9,10,11,12],"a":"x"}`, i)), popts)), "\n")
			found := false
			for _, content := range got {
				if content == wantText || strings.Contains(content, "\n"+wantText+"\n---\n") {
					found = true
				}
			}
			c.Count("format_checks", 1)
			if !found {
				c.Violate("format-not-a-function-of-options", "", fmt.Sprintf("options {%s} sequence %v (shared=%v): call %d (%s) is not stored in the layout of this Config's options; expected text %s", o.Name, seq, shared, i, api, vkit.Q(wantText)), in)
				ok = false
				break
			}
		}
		if fmt.Sprint(treeKeys(got)) != fmt.Sprint(keysOfBool(want)) {
			c.Violate("location-not-a-function-of-options", "", fmt.Sprintf("options {%s} sequence %v (shared=%v): created %v, the options give %v", o.Name, seq, shared, treeKeys(got), keysOfBool(want)), in)
			ok = false
		}
		c.Count("location_checks", 1)
	}
	return tree(root), outcomes, ok
}

func keysOfBool(m map[string]bool) []string {
	ks := make([]string, 0, len(m))
	for k := range m {
		ks = append(ks, k)
	}
	sort.Strings(ks)
	return ks
}

func checkC12(c *vkit.Ctx) {
	c.P.Rule = "case = (option set, sequence of 1..4 entry points) - ALL 780 sequences over the five Match* entry points x 144 option sets (Filename x Ext x Update x JSON x nested Dir); each sequence is executed twice in fresh directories: through one shared Config and through a freshly built identical Config per call; oracle: reflection fingerprint of the Config (and of an unrelated Config and of WithConfig()) before/after every call, and equality of created relative paths, file bytes and outcomes between the two executions; plus sampled sequences in which the calls of one test come from two different _test.go files (default file name = the calling file's, per call) sampled sets of 2-4 Configs built from one slice of option VALUES (some with an override behind it), each stored JSON text compared with the Config's own options; sampled re-entrant calls (a Custom callback of a call through one Config snapshots through another Config with other JSON options), and sampled sequences through a Config and a by-value copy of it with another Filename (taken before, between or after calls through the original); non-trivial = sequence of length >= 2 (an earlier call can influence a later one); distinct by (option set, sequence); thorough adds concurrent mixes through one Config under the race detector"
	sets := allOptSets()
	var seqs [][]string
	var rec func(pre []string, n int)
	rec = func(pre []string, n int) {
		if n == 0 {
			seqs = append(seqs, append([]string(nil), pre...))
			return
		}
		for _, e := range entryPoints {
			rec(append(pre, e), n-1)
		}
	}
	for n := 1; n <= 4; n++ {
		rec(nil, n)
	}
	total := len(sets) * len(seqs)
	for i := 0; i < total; i++ {
		if os.Getenv("VERIF_RACE_BUILD") == "1" {
			break // the -race workers only run the concurrent mixes below
		}
		if !c.Mine(i) {
			continue
		}
		o, seq := sets[i/len(seqs)], seqs[i%len(seqs)]
		in := map[string]any{"options": o.Name, "sequence": seq}
		c.Guard(in, func() {
			t1, o1, ok1 := runSeq(c, o, seq, true, in)
			t2, o2, ok2 := runSeq(c, o, seq, false, in)
			if ok1 && ok2 {
				if fmt.Sprint(treeKeys(t1)) != fmt.Sprint(treeKeys(t2)) {
					c.Violate("location-depends-on-earlier-calls", "", fmt.Sprintf("options {%s} sequence %v: shared Config created %v, fresh Configs created %v", o.Name, seq, treeKeys(t1), treeKeys(t2)), in)
				} else if fmt.Sprint(o1) != fmt.Sprint(o2) {
					c.Violate("outcome-depends-on-earlier-calls", "", fmt.Sprintf("options {%s} sequence %v: outcomes %v vs %v", o.Name, seq, o1, o2), in)
				} else {
					for k, v := range t1 {
						if t2[k] != v {
							c.Violate("content-depends-on-earlier-calls", "", fmt.Sprintf("options {%s} sequence %v: file %s differs", o.Name, seq, k), in)
							break
						}
					}
				}
			}
			c.Count("files_compared", len(t1))
		})
		c.Case(vkit.Hash(o.Name, seq), len(seq) >= 2)
		if i%4001 == 0 {
			c.Sample(in)
		}
	}
	// the same test calling through one Config from two test source files (a helper that
	// lives in its own _test.go file next to a direct call), in every order
	if os.Getenv("VERIF_RACE_BUILD") != "1" {
		n := c.N(3000, 60000)
		for j := 0; j < n; j++ {
			i := total + 1000000 + j
			if !c.Mine(i) {
				continue
			}
			r := c.Rand("twofiles", j)
			o := sets[r.IntN(len(sets))]
			if r.IntN(3) > 0 {
				for o.File != "" {
					o = sets[r.IntN(len(sets))]
				}
			}
			seq := make([]string, 2+r.IntN(3))
			other := make([]bool, len(seq))
			for k := range seq {
				seq[k] = entryPoints[r.IntN(5)]
				other[k] = r.IntN(2) == 0
			}
			in := map[string]any{"options": o.Name, "sequence": seq, "from_second_test_file": other}
			c.Guard(in, func() {
				t1, o1, ok1 := runSeq(c, o, seq, true, in, other...)
				t2, o2, ok2 := runSeq(c, o, seq, false, in, other...)
				if ok1 && ok2 && (fmt.Sprint(treeKeys(t1)) != fmt.Sprint(treeKeys(t2)) || fmt.Sprint(o1) != fmt.Sprint(o2)) {
					c.Violate("location-depends-on-earlier-calls", "", fmt.Sprintf("options {%s} sequence %v (second file: %v): shared Config created %v %v, fresh Configs created %v %v", o.Name, seq, other, treeKeys(t1), o1, treeKeys(t2), o2), in)
				}
			})
			c.Count("two_test_file_sequences", 1)
			c.Case(vkit.Hash("twofiles", o.Name, seq, other), true)
		}
	}
	// option VALUES reused for several Configs (a package-level `var common = []func(*snaps.Config){...}`
	// spread into every WithConfig call, some calls adding overrides behind it): a Config is
	// what its own options say, whatever other Configs were built from the same values
	if os.Getenv("VERIF_RACE_BUILD") != "1" {
		n := c.N(1500, 40000)
		jsons := []snaps.JSONConfig{{Width: 20, Indent: "\t", SortKeys: false}, {Width: 60, Indent: " ", SortKeys: true}, {Width: 20, Indent: "    ", SortKeys: true}, {Width: 200, Indent: "", SortKeys: false}}
		doc := `{"pos":7,"b":[1,2,3,4,5,6,7,8,9,10,11,12],"a":"x"}`
		for j := 0; j < n; j++ {
			i := total + 3000000 + j
			if !c.Mine(i) {
				continue
			}
			r := c.Rand("sharedopts", j)
			ja, jb := jsons[r.IntN(4)], jsons[r.IntN(4)]
			// which Configs get the override behind the common options, and in which order they are built
			nc := 2 + r.IntN(3)
			override := make([]bool, nc)
			for k := range override {
				override[k] = r.IntN(3) == 0
			}
			override[r.IntN(nc)] = true
			useFirst := r.IntN(2) == 0 // a call through the first Config before the others are built
			in := map[string]any{"part": "shared option values", "common_json": ja, "override_json": jb, "configs_with_override": override, "call_before_others_are_built": useFirst}
			c.Guard(in, func() {
				root := vkit.MkScratch("c12o")
				defer os.RemoveAll(root)
				snaps.VerifResetProcessState()
				snaps.VerifSetMode(false, "")
				snaps.VerifSetNoColor(true)
				common := []func(*snaps.Config){snaps.JSON(ja), snaps.Ext(".x")}
				overrideOpt := snaps.JSON(jb)
				cfgs := make([]*snaps.Config, nc)
				t := vkit.NewT("TestO")
				for k := 0; k < nc; k++ {
					opts := append(append([]func(*snaps.Config){}, common...), snaps.Dir(root), snaps.Filename(fmt.Sprintf("c%d", k)))
					if override[k] {
						opts = append(opts, overrideOpt)
					}
					cfgs[k] = snaps.WithConfig(opts...)
					if k == 0 && useFirst {
						cfgs[0].MatchJSON(t, doc)
					}
				}
				for k := nc - 1; k >= 0; k-- {
					cfgs[k].MatchJSON(t, doc)
				}
				t.Take()
				t.Finish()
				for k := 0; k < nc; k++ {
					jc := ja
					if override[k] {
						jc = jb
					}
					want := strings.TrimSuffix(string(tpretty.PrettyOptions([]byte(doc), &tpretty.Options{Width: jc.Width, Indent: jc.Indent, SortKeys: jc.SortKeys})), "\n")
					ents, _ := vkit.ReadSnapFile(filepath.Join(root, fmt.Sprintf("c%d.snap.x", k)))
					if len(ents) == 0 || ents[0].Body != want {
						got := "<no entry>"
						if len(ents) > 0 {
							got = ents[0].Body
						}
						c.Violate("format-not-a-function-of-options", "", fmt.Sprintf("Config %d of %d (override=%v) built from shared option values stored %s, its options say %s", k, nc, override[k], vkit.Q(got), vkit.Q(want)), in)
						return
					}
				}
				c.Count("configs_built_from_shared_option_values", nc)
			})
			c.Case(vkit.Hash("sharedopts", fmt.Sprint(in)), true)
		}
	}
	// Configs derived from another Config by value (`d := *base; snaps.Filename("x")(&d)`:
	// Config is an exported struct, options are plain funcs): base and derived are
	// independent, each call lands where the options of the Config it went through say
	if os.Getenv("VERIF_RACE_BUILD") != "1" {
		n := c.N(3000, 60000)
		for j := 0; j < n; j++ {
			i := total + 2000000 + j
			if !c.Mine(i) {
				continue
			}
			r := c.Rand("derived", j)
			o := sets[r.IntN(len(sets))]
			seq := make([]string, 2+r.IntN(3))
			via := make([]bool, len(seq)) // true: through the derived copy
			for k := range seq {
				seq[k] = entryPoints[r.IntN(5)]
				via[k] = r.IntN(2) == 0
			}
			copyAt := r.IntN(len(seq)) // the copy is taken after this many calls through the base
			in := map[string]any{"options": o.Name, "sequence": seq, "through_derived_copy": via, "copy_taken_before_call": copyAt}
			c.Guard(in, func() {
				root := vkit.MkScratch("c12d")
				defer os.RemoveAll(root)
				snaps.VerifResetProcessState()
				snaps.VerifSetMode(false, "")
				snaps.VerifSetNoColor(true)
				base := o.build(root)
				var derived *snaps.Config
				flip := r.IntN(2) == 0
				updDerived := o.Upd
				want := map[string]bool{}
				sk := map[string]int{}
				t := vkit.NewT("TestC/sub")
				for k, api := range seq {
					if k == copyAt {
						d := *base
						snaps.Filename("derived")(&d)
						if flip && o.Upd != nil {
							// the copy gets the opposite Update option; the original keeps its own
							snaps.Update(!*o.Upd)(&d)
							nu := !*o.Upd
							updDerived = &nu
						}
						derived = &d
					}
					cfg, file, upd := base, o.File, o.Upd
					if via[k] && derived != nil {
						cfg, file, upd = derived, "derived", updDerived
					}
					callEntry(cfg, t, api, k)
					t.Take()
					if upd != nil && !*upd {
						continue
					}
					ext := o.Ext
					switch api {
					case "ssnap", "sjson":
						b := file
						if b == "" {
							b = "TestC_sub"
						}
						if api == "sjson" && ext == "" {
							ext = ".json"
						}
						sk[b+ext]++
						want[filepath.Join(o.Sub, fmt.Sprintf("%s_%d.snap%s", b, sk[b+ext], ext))] = true
					default:
						b := file
						if b == "" {
							b = "c12_test"
						}
						want[filepath.Join(o.Sub, b+".snap"+ext)] = true
					}
				}
				t.Finish()
				if got := tree(root); fmt.Sprint(treeKeys(got)) != fmt.Sprint(keysOfBool(want)) {
					c.Violate("location-not-a-function-of-options", "", fmt.Sprintf("options {%s} sequence %v through base/derived-by-value Config %v (copy taken before call %d): created %v, the options give %v", o.Name, seq, via, copyAt, treeKeys(got), keysOfBool(want)), in)
				}
			})
			c.Count("derived_by_value_config_sequences", 1)
			c.Case(vkit.Hash("derived", o.Name, seq, via, copyAt), true)
		}
	}
	// Configs built by WithConfig are independent of each other and of the defaults, also
	// the ones built without options: options are exported funcs and may be applied to any
	// *Config a caller holds
	if os.Getenv("VERIF_RACE_BUILD") != "1" && c.P.Shard == 0 {
		in := map[string]any{"sub": "independence of zero-option Configs"}
		c.Guard(in, func() {
			snaps.VerifResetProcessState()
			fp0 := fingerprint(snaps.WithConfig())
			a := snaps.WithConfig()
			snaps.Filename("only-for-a")(a)
			snaps.Update(true)(a)
			snaps.Ext(".a")(a)
			if fp := fingerprint(snaps.WithConfig()); fp != fp0 {
				c.Violate("defaults-changed", "", fmt.Sprintf("options applied to the Config returned by WithConfig() show up in the next WithConfig(): %s -> %s", fp0, fp), in)
			}
			// and in the package-level functions: a mismatch must still be reported with UPDATE_SNAPS unset
			root := vkit.MkScratch("c12z")
			defer os.RemoveAll(root)
			snaps.VerifSetMode(false, "")
			snaps.VerifSetNoColor(true)
			t1 := vkit.NewT("TestZ")
			snaps.WithConfig(snaps.Dir(root), snaps.Filename("z")).MatchSnapshot(t1, "one")
			t1.Take()
			t1.Finish()
			t2 := vkit.NewT("TestZ")
			snaps.WithConfig(snaps.Dir(root), snaps.Filename("z")).MatchSnapshot(t2, "two")
			if o := vkit.Classify(t2.Take()); o != vkit.Failed {
				c.Violate("defaults-changed", "", "after Update(true) was applied to the Config returned by WithConfig(), a Config without Update option rewrote a mismatching snapshot: "+o, in)
			}
			t2.Finish()
			c.Count("zero_option_config_independence_checks", 1)
		})
	}
	// re-entrant use: a Custom callback of a call through Config A takes a snapshot through
	// Config B (other JSON options); A's text must still be laid out by A's options
	if os.Getenv("VERIF_RACE_BUILD") != "1" {
		layouts := []snaps.JSONConfig{{Indent: " ", SortKeys: true}, {Indent: "\t", SortKeys: false, Width: 20}, {Indent: "    ", SortKeys: true, Width: 80}, {Indent: "", SortKeys: false, Width: 200}, {Indent: "  ", SortKeys: false}}
		n := c.N(1500, 30000)
		for j := 0; j < n; j++ {
			i := total + 3000000 + j
			if !c.Mine(i) {
				continue
			}
			r := c.Rand("nested", j)
			la, lb := layouts[r.IntN(len(layouts))], layouts[r.IntN(len(layouts))]
			apiA, apiB := pick2(r, "json", "sjson"), pick2(r, "json", "sjson")
			in := map[string]any{"outer_options": la, "inner_options": lb, "outer_api": apiA, "inner_api": apiB}
			c.Guard(in, func() {
				root := vkit.MkScratch("c12n")
				defer os.RemoveAll(root)
				snaps.VerifResetProcessState()
				snaps.VerifSetMode(false, "")
				snaps.VerifSetNoColor(true)
				cfgA := snaps.WithConfig(snaps.Dir(root), snaps.Filename("outer"), snaps.JSON(la))
				cfgB := snaps.WithConfig(snaps.Dir(root), snaps.Filename("inner"), snaps.JSON(lb))
				if r.IntN(3) == 0 {
					cfgB = snaps.WithConfig(snaps.Dir(root), snaps.Filename("inner")) // defaults
					lb = snaps.JSONConfig{Indent: " ", SortKeys: true}
				}
				docA := `{"zeta":{"b":[1,2,3,4,5,6,7,8,9,10,11,12],"a":"x"},"pos":1,"alpha":[{"k":2,"j":1}]}`
				docB := `{"y":[10,20,30,40,50,60,70,80,90,100,110,120],"x":{"n":2,"m":1}}`
				t := vkit.NewT("TestNested")
				inner := func(v any) (any, error) {
					if apiB == "sjson" {
						cfgB.MatchStandaloneJSON(t, docB)
					} else {
						cfgB.MatchJSON(t, docB)
					}
					return v, nil
				}
				if apiA == "sjson" {
					cfgA.MatchStandaloneJSON(t, docA, match.Custom("pos", inner))
				} else {
					cfgA.MatchJSON(t, docA, match.Custom("pos", inner))
				}
				t.Take()
				t.Finish()
				got := tree(root)
				want := func(doc string, l snaps.JSONConfig) string {
					return strings.TrimSuffix(string(tpretty.PrettyOptions([]byte(doc), &tpretty.Options{Width: l.Width, Indent: l.Indent, SortKeys: l.SortKeys})), "\n")
				}
				for _, x := range []struct {
					who, text string
				}{{"outer", want(docA, la)}, {"inner", want(docB, lb)}} {
					found := false
					for name, content := range got {
						if strings.HasPrefix(filepath.Base(name), x.who) && (content == x.text || strings.Contains(content, "\n"+x.text+"\n---\n")) {
							found = true
						}
					}
					if !found {
						c.Violate("format-not-a-function-of-options", "", fmt.Sprintf("a Custom callback of the %s call through a Config with JSON options %+v took a %s snapshot through a Config with %+v: the %s text is not laid out by its own Config's options; files %v", apiA, la, apiB, lb, x.who, got), in)
						return
					}
				}
			})
			c.Count("nested_calls_from_a_custom_callback", 1)
			c.Case(vkit.Hash("nested", fmt.Sprint(la), fmt.Sprint(lb), apiA, apiB), true)
		}
	}
	if c.P.Exhaustive == nil {
		c.P.Exhaustive = map[string]bool{}
	}
	if os.Getenv("VERIF_RACE_BUILD") != "1" {
		c.P.Exhaustive["sequences<=4_x_144_option_sets"] = c.OnlyCase < 0
	}
	if c.P.Shard == 0 {
		c.Count("option_sets", len(sets))
		c.Count("sequences", len(seqs))
	}

	// concurrent mixes through one Config (meaningful under -race: thorough tier / C06)
	if os.Getenv("VERIF_RACE_BUILD") == "1" {
		n := c.N(100, 3000)
		for j := 0; j < n; j++ {
			i := total + j
			if !c.Mine(i) {
				continue
			}
			r := c.Rand("conc", j)
			o := sets[r.IntN(len(sets))]
			root := vkit.MkScratch("c12c")
			snaps.VerifResetProcessState()
			cfg := o.build(root)
			fp0 := fingerprint(cfg)
			var wg sync.WaitGroup
			for g := 0; g < 8; g++ {
				seq := make([]string, 6)
				for k := range seq {
					seq[k] = entryPoints[r.IntN(5)]
				}
				wg.Add(1)
				go func(g int, seq []string) {
					defer wg.Done()
					t := vkit.NewT(fmt.Sprintf("TestConc%d", g))
					for k, api := range seq {
						callEntry(cfg, t, api, k)
					}
					t.Finish()
				}(g, seq)
			}
			wg.Wait()
			if fp := fingerprint(cfg); fp != fp0 {
				c.Violate("config-mutated-by-call", "", fmt.Sprintf("concurrent mix through {%s}: %s -> %s", o.Name, fp0, fp), map[string]any{"options": o.Name})
			}
			os.RemoveAll(root)
			c.Count("concurrent_mixes", 1)
			c.Case(vkit.Hash("conc", j, o.Name), true)
		}
	}
}
