package enga

import (
	"fmt"
	"math/rand/v2"
	"os"
	"regexp"
	"sort"
	"strconv"
	"strings"
	"sync"

	"github.com/gkampitakis/go-snaps/snaps"

	"verifharness/vkit"
)

func init() { register("C13", checkC13) }

var hdrDelRE = regexp.MustCompile(`^- Snapshot +- (-?\d+)$`)
var hdrInsRE = regexp.MustCompile(`^\+ Received +\+ (-?\d+)$`)

// splitLines mirrors the statement's notion of "lines of a text": the text is
// cut after every "\n"; the last piece (possibly empty) is a line too.
func splitLines(s string) []string { return strings.Split(s, "\n") }

type parsedReport struct {
	Del, Ins     int
	Minus, Plus  []string
	Equal        []string
	RangeHeaders int
}

// parseReport parses a NO_COLOR failure report produced without a footer.
func parseReport(rep string) (*parsedReport, string) {
	if !strings.HasPrefix(rep, "\n") {
		return nil, "report does not start with a blank line"
	}
	rest := rep[1:]
	nl := strings.IndexByte(rest, '\n')
	if nl < 0 {
		return nil, "no header"
	}
	h1 := rest[:nl]
	rest = rest[nl+1:]
	nl = strings.IndexByte(rest, '\n')
	if nl < 0 {
		return nil, "no second header line"
	}
	h2 := rest[:nl]
	rest = rest[nl+1:]
	m1 := hdrDelRE.FindStringSubmatch(h1)
	m2 := hdrInsRE.FindStringSubmatch(h2)
	if m1 == nil || m2 == nil {
		return nil, fmt.Sprintf("header lines not recognised: %q / %q", h1, h2)
	}
	p := &parsedReport{}
	p.Del, _ = strconv.Atoi(m1[1])
	p.Ins, _ = strconv.Atoi(m2[1])
	if !strings.HasPrefix(rest, "\n") {
		return nil, "no blank line after header"
	}
	rest = rest[1:]
	if !strings.HasSuffix(rest, "\n\n") && rest != "\n" {
		// body ends with the newline of its last line plus the report's closing newline
		if !strings.HasSuffix(rest, "\n") {
			return nil, "report does not end with a newline"
		}
	}
	body := strings.TrimSuffix(rest, "\n")
	if body == "" {
		return p, ""
	}
	if !strings.HasSuffix(body, "\n") {
		return nil, "diff body does not end with a newline"
	}
	lines := strings.Split(strings.TrimSuffix(body, "\n"), "\n")
	for i := 0; i < len(lines); i++ {
		l := lines[i]
		switch {
		case strings.HasPrefix(l, "@@ -") && strings.HasSuffix(l, " @@"):
			p.RangeHeaders++
			if i+1 >= len(lines) || lines[i+1] != "" {
				return nil, "range header not followed by a blank line"
			}
			i++
		case strings.HasPrefix(l, "- "):
			p.Minus = append(p.Minus, l[2:])
		case strings.HasPrefix(l, "+ "):
			p.Plus = append(p.Plus, l[2:])
		case strings.HasPrefix(l, "  "):
			p.Equal = append(p.Equal, l[2:])
		default:
			return nil, fmt.Sprintf("body line %d without a 2-byte prefix: %q", i, vkit.Clip(l, 80))
		}
	}
	return p, ""
}

func multiset(xs []string) map[string]int {
	m := map[string]int{}
	for _, x := range xs {
		m[x]++
	}
	return m
}

func msSub(a map[string]int, xs []string) (map[string]int, string) {
	out := map[string]int{}
	for k, v := range a {
		out[k] = v
	}
	for _, x := range xs {
		if out[x] == 0 {
			return nil, x
		}
		out[x]--
		if out[x] == 0 {
			delete(out, x)
		}
	}
	return out, ""
}

func msEqual(a, b map[string]int) bool {
	if len(a) != len(b) {
		return false
	}
	for k, v := range a {
		if b[k] != v {
			return false
		}
	}
	return true
}

// judgePair applies every clause of C13 to one (stored, received) pair and
// returns the first refuted clause.
func judgePair(a, b string, noColor bool) (kind, detail string) {
	snaps.VerifSetNoColor(noColor)
	return judgePairCur(a, b, noColor)
}

// judgePairCur judges a pair under the colour mode that is already set (callable from
// several goroutines at once).
func judgePairCur(a, b string, noColor bool) (kind, detail string) {
	rep := snaps.VerifPrettyDiff(a, b)
	if (rep == "") != (a == b) {
		return "empty-iff-identical", fmt.Sprintf("report empty=%v but texts identical=%v", rep == "", a == b)
	}
	// edit script underneath
	aL, bL, full, grouped := snaps.VerifOpCodes(a, b)
	pi, pj := 0, 0
	var replay []string
	chA, chB := map[int]bool{}, map[int]bool{}
	for n, op := range full {
		if op.I1 != pi || op.J1 != pj || op.I2 < op.I1 || op.J2 < op.J1 {
			return "opcodes-not-contiguous", fmt.Sprintf("opcode %d %+v does not continue at (%d,%d)", n, op, pi, pj)
		}
		pi, pj = op.I2, op.J2
		switch op.Tag {
		case 0: // equal
			if op.I2-op.I1 != op.J2-op.J1 {
				return "opcode-equal-length", fmt.Sprintf("%+v", op)
			}
			for k := 0; k < op.I2-op.I1; k++ {
				if aL[op.I1+k] != bL[op.J1+k] {
					return "opcode-equal-over-different-lines", fmt.Sprintf("%+v: %q vs %q", op, aL[op.I1+k], bL[op.J1+k])
				}
			}
			replay = append(replay, aL[op.I1:op.I2]...)
		case 1: // insert
			if op.I1 != op.I2 || op.J1 == op.J2 {
				return "opcode-shape", fmt.Sprintf("insert %+v", op)
			}
			replay = append(replay, bL[op.J1:op.J2]...)
		case 2: // delete
			if op.J1 != op.J2 || op.I1 == op.I2 {
				return "opcode-shape", fmt.Sprintf("delete %+v", op)
			}
		case 3: // replace
			if op.I1 == op.I2 || op.J1 == op.J2 {
				return "opcode-shape", fmt.Sprintf("replace %+v", op)
			}
			replay = append(replay, bL[op.J1:op.J2]...)
		default:
			return "opcode-tag", fmt.Sprintf("%+v", op)
		}
		if op.Tag != 0 {
			for k := op.I1; k < op.I2; k++ {
				chA[k] = true
			}
			for k := op.J1; k < op.J2; k++ {
				chB[k] = true
			}
		}
	}
	if pi != len(aL) || pj != len(bL) {
		return "opcodes-do-not-cover", fmt.Sprintf("end at (%d,%d), texts have (%d,%d) lines", pi, pj, len(aL), len(bL))
	}
	if strings.Join(replay, "") != strings.Join(bL, "") || len(replay) != len(bL) {
		return "opcodes-replay", "replaying the edit script on the first text does not give the second"
	}
	for _, g := range grouped {
		for _, op := range g {
			if op.Tag != 0 {
				for k := op.I1; k < op.I2; k++ {
					delete(chA, k)
				}
				for k := op.J1; k < op.J2; k++ {
					delete(chB, k)
				}
			}
		}
	}
	if len(chA)+len(chB) > 0 {
		return "hunks-omit-changed-line", fmt.Sprintf("changed lines missing from every hunk: a%v b%v", keysInt(chA), keysInt(chB))
	}
	if rep == "" {
		return "", ""
	}
	if !noColor {
		st := vkit.StripANSI(rep)
		for _, l := range strings.Split(st, "\n") {
			if m := hdrDelRE.FindStringSubmatch(strings.TrimSpace(l)); m != nil && strings.HasPrefix(m[1], "-") {
				return "negative-count", l
			}
			if m := hdrInsRE.FindStringSubmatch(strings.TrimSpace(l)); m != nil && strings.HasPrefix(m[1], "-") {
				return "negative-count", l
			}
		}
		return "", ""
	}
	return judgeReportText(rep, a, b, len(aL), len(bL))
}

// judgeReportText decides the report clauses of C13 for a NO_COLOR report of (stored a,
// received b): no escape sequences, header counts, `-` lines from a, `+` lines from b,
// equal remainders, a range header for long texts.
func judgeReportText(rep, a, b string, nA, nB int) (kind, detail string) {
	if strings.Contains(rep, "\x1b") && !strings.Contains(a+b, "\x1b") {
		return "escape-sequence-in-nocolor", "ESC byte in a NO_COLOR report"
	}
	p, perr := parseReport(rep)
	if perr != "" {
		return "report-shape", perr
	}
	if p.Del != len(p.Minus) || p.Ins != len(p.Plus) {
		return "header-counts", fmt.Sprintf("header says -%d +%d, body shows -%d +%d", p.Del, p.Ins, len(p.Minus), len(p.Plus))
	}
	la, lb := multiset(splitLines(a)), multiset(splitLines(b))
	ra, miss := msSub(la, p.Minus)
	if ra == nil {
		return "minus-line-not-in-stored", fmt.Sprintf("%q", vkit.Clip(miss, 80))
	}
	rb, miss := msSub(lb, p.Plus)
	if rb == nil {
		return "plus-line-not-in-received", fmt.Sprintf("%q", vkit.Clip(miss, 80))
	}
	if !msEqual(ra, rb) {
		return "remainders-differ", "stored minus `-` lines != received minus `+` lines"
	}
	if (nA > 10 || nB > 10) && p.RangeHeaders == 0 {
		return "missing-range-header", "texts longer than 10 lines but no @@ header"
	}
	return "", ""
}

func keysInt(m map[int]bool) []int {
	var out []int
	for k := range m {
		out = append(out, k)
	}
	sort.Ints(out)
	return out
}

// seqs enumerates all line sequences over {a,b,c} of length 0..5 (364 of them).
func seqs() []string {
	out := []string{}
	var rec func(pre []string, n int)
	rec = func(pre []string, n int) {
		if n == 0 {
			out = append(out, strings.Join(pre, "\n"))
			return
		}
		for _, l := range []string{"a", "b", "c"} {
			rec(append(pre, l), n-1)
		}
	}
	out = append(out, "")
	for n := 1; n <= 5; n++ {
		rec(nil, n)
	}
	return out
}

func bigText(r *rand.Rand) string { return bigTextN(r, 200+r.IntN(400)) }

func bigTextN(r *rand.Rand, n int) string {
	pool := []string{"{", "}", "  x: 1", "", "end", "  y: 2"}
	lines := make([]string, n)
	for i := range lines {
		if r.IntN(4) == 0 {
			lines[i] = fmt.Sprintf("uniq-%d", r.IntN(10000))
		} else {
			lines[i] = pool[r.IntN(len(pool))]
		}
	}
	return strings.Join(lines, "\n")
}

func editBig(r *rand.Rand, s string) string {
	ls := strings.Split(s, "\n")
	k := 1 + r.IntN(6)
	for ; k > 0; k-- {
		i := r.IntN(len(ls))
		switch r.IntN(5) {
		case 3:
			// one more copy of a line right next to itself (a duplicated record, an extra blank line)
			ls = append(ls[:i+1], append([]string{ls[i]}, ls[i+1:]...)...)
		case 4:
			// drop one line of a run of identical lines, if there is a run here
			if i+1 < len(ls) && ls[i] == ls[i+1] {
				ls = append(ls[:i], ls[i+1:]...)
			} else {
				ls = append(ls[:i+1], append([]string{ls[i]}, ls[i+1:]...)...)
			}
		case 0:
			ls[i] = ls[i] + "~"
		case 1:
			ls = append(ls[:i], ls[i+1:]...)
		default:
			ls = append(ls[:i+1], append([]string{"inserted"}, ls[i+1:]...)...)
		}
		if len(ls) == 0 {
			ls = []string{"x"}
		}
	}
	return strings.Join(ls, "\n")
}

func midText(r *rand.Rand) string {
	n := 11 + r.IntN(30)
	ls := make([]string, n)
	for i := range ls {
		l, _ := vkit.Line(r, vkit.TextOpts{NoHuge: true, CREOL: true})
		ls[i] = l
	}
	return strings.Join(ls, "\n")
}

func checkC13(c *vkit.Ctx) {
	if os.Getenv("VERIF_RACE_BUILD") == "1" {
		// the -race workers run the concurrent batches only
		c13Concurrent(c)
		return
	}
	c.P.Rule = "part (i): ALL ordered pairs of line sequences over {a,b,c} of length 0..5 (364^2 = 132496 pairs), NO_COLOR, complete; part (ii): seeded random pairs - near pairs (one hostile edit), independent texts, single-line, >10 lines (range headers), 200-600 lines with heavily repeated lines (popular-line heuristic), 1000-12000 lines around round sizes with few edits incl. a line duplicated next to itself or one line of a run dropped, lines starting with `- `/`+ `/`@@`, colours on and off; part (iii): batches of 4-11 comparisons running at once, all with the same received text and different stored texts; part (iv): Match*-level - a text stored through one of the five entry points, a second text failing against it in the next simulated process (NO_COLOR), the message handed to t.Error (footer stripped) judged by the same report clauses against the text the snapshot file holds; every pair goes through the real prettyDiff and the real opcode generator, an independent parser/checker decides all clauses; non-trivial = pair with different texts; distinct by hash(stored, received, colour)"
	all := seqs()
	total := len(all) * len(all)
	done := 0
	if c.OnlyCase < 0 || c.OnlyCase < total {
		for i := 0; i < total; i++ {
			if !c.Mine(i) {
				continue
			}
			a, b := all[i/len(all)], all[i%len(all)]
			c.Guard([]string{a, b}, func() {
				if k, d := judgePair(a, b, true); k != "" {
					c.Violate(k, "", fmt.Sprintf("exhaustive pair: %s", d), map[string]any{"stored": a, "received": b, "no_color": true})
				}
			})
			c.Case(vkit.Hash("x", a, b), a != b)
			done++
		}
	}
	c.Count("exhaustive_pairs", done)
	if c.P.Exhaustive == nil {
		c.P.Exhaustive = map[string]bool{}
	}
	c.P.Exhaustive["abc_len<=5_pairs"] = c.OnlyCase < 0
	n := c.N(300000, 10000000)
	for j := 0; j < n; j++ {
		i := total + j
		if !c.Mine(i) {
			continue
		}
		r := c.Rand("pair", j)
		var a, b, shape string
		if r.IntN(150) == 0 {
			// thousands of lines on both sides (size-gated fast paths live here), sizes around
			// round numbers, few edits
			sizes := []int{999, 1000, 1001, 1999, 2000, 2001, 2500, 3000, 4095, 4096, 4097, 5000, 8192, 10000, 12000}
			a = bigTextN(r, sizes[r.IntN(len(sizes))])
			b = editBig(r, a)
			shape = "1k-12k-lines-repeated"
		} else {
			a, b, shape = drawPair(r, j)
		}
		_ = shape
		noColor := r.IntN(3) != 0
		judgeAndCount(c, r, j, a, b, shape, noColor)
	}
	c13MatchLevel(c)
	c13Concurrent(c)
}

// c13MatchLevel: the report a FAILING Match* call hands to t.Error, judged against the text
// the snapshot file really holds and the formatted received value (not against the pair the
// hook was given): store a through the API in one simulated process, call with b in the next
// one (NO_COLOR), strip the `at <file>:<line>` footer, apply the report clauses.
func c13MatchLevel(c *vkit.Ctx) {
	n := c.N(4000, 120000)
	apis := []string{"ssnap", "snap", "ssnap", "snap", "yaml", "json", "sjson"}
	for j := 0; j < n; j++ {
		i := 40000000 + j
		if !c.Mine(i) {
			continue
		}
		r := c.Rand("match", j)
		api := apis[r.IntN(len(apis))]
		var va, vb Val
		shape := ""
		switch api {
		case "ssnap", "snap":
			var a, b string
			if r.IntN(4) == 0 && api == "ssnap" {
				// (lines ending in \r do not round-trip through multi-entry files, which are
				// read line by line; the multi-entry texts below are drawn without them)
				a = midText(r)
				b = editBig(r, a)
				shape = "11-40-lines"
			} else {
				a, _ = vkit.Text(r, vkit.TextOpts{NoHuge: true, CREOL: api == "ssnap"})
				if r.IntN(3) == 0 {
					b, _ = vkit.Text(r, vkit.TextOpts{NoHuge: true, CREOL: api == "ssnap"})
					shape = "independent"
				} else {
					b, shape = vkit.Pair(r, a, api == "ssnap")
					shape = "near:" + shape
				}
			}
			va, vb = Val{Kind: "str", S: a}, Val{Kind: "str", S: b}
			if r.IntN(6) == 0 {
				cl := vkit.Classes{}
				va, vb = textCarrier(r, a, cl), textCarrier(r, b, cl)
				shape += "+carrier"
			}
		case "yaml":
			va = genValue(r, "yaml", nil, HistOpts{NoHuge: true, NoHeader: true}, vkit.Classes{})
			vb = genValue(r, "yaml", nil, HistOpts{NoHuge: true, NoHeader: true}, vkit.Classes{})
			shape = "independent-yaml"
		default:
			va = genValue(r, api, nil, HistOpts{NoHuge: true}, vkit.Classes{})
			vb = genValue(r, api, nil, HistOpts{NoHuge: true}, vkit.Classes{})
			shape = "independent-json"
		}
		opA := Op{API: api, Test: "TestReport", File: "rep", Val: va}
		opB := opA
		opB.Val = vb
		ta, _ := Formatted(opA)
		tb, _ := Formatted(opB)
		in := map[string]any{"api": api, "stored": vkit.Clip(ta, 3000), "received": vkit.Clip(tb, 3000), "shape": shape}
		c.Guard(in, func() {
			s := NewSess("c13m")
			defer s.Close()
			s.NewProcess(vkit.Mode{}, true)
			t := vkit.NewT("TestReport")
			res := s.Step(t, opA, vkit.Mode{})
			s.EndExec(t)
			if res.Got != vkit.Added || len(res.Problems) > 0 {
				c.Violate("match-level-store-failed", "", fmt.Sprintf("%s: storing the first text gave %s %v", api, res.Got, res.Problems), in)
				return
			}
			m := vkit.Mode{CI: r.IntN(2) == 0}
			tornTail := !opA.standalone() && r.IntN(5) == 0
			if tornTail {
				// the file ends in a half-written entry of another test (an interrupted append):
				// that test's lookup finds the id line, collects lines and runs into the end of
				// the file - rejected, on CI nothing is written - and then the judged call runs
				m = vkit.Mode{CI: true}
				f, err := os.OpenFile(s.MultiPath(opA), os.O_APPEND|os.O_WRONLY, 0o644)
				if err == nil {
					f.WriteString("\n[TestTail - 1]\ntail line one\ntail line two\ntail line three")
					f.Close()
				}
			}
			s.NewProcess(m, true)
			if tornTail {
				tt := vkit.NewT("TestTail")
				s.config(opA).MatchSnapshot(tt, "tail line one\ntail line two\ntail line three")
				if got := vkit.Classify(tt.Take()); got != vkit.Failed {
					c.Violate("match-level-torn-tail-lookup", "", "the lookup of a half-written last entry on CI gave "+got, in)
					return
				}
				tt.Finish()
				c.Count("match_level_reports_after_a_rejected_lookup_of_a_half_written_entry", 1)
			}
			t = vkit.NewT("TestReport")
			res = s.Step(t, opB, m)
			s.EndExec(t)
			if len(res.Problems) > 0 {
				// (class terminator-escape-conflation: the texts differ only in `---` vs `/-/-/-/`
				// lines and the call passes - the C02 finding seen from here: no report at all
				// for different texts)
				c.Violate("match-level-"+res.Problems[0].Kind, res.Problems[0].Class, res.Problems[0].Detail, in)
				return
			}
			if ta == tb {
				c.Count("match_level_identical_pairs_passed", 1)
				return
			}
			// res.Got == Failed was decided by Step against the model; now the message itself
			if len(res.Signals.Errors) != 1 {
				return
			}
			rep := res.Signals.Errors[0]
			if strings.Contains(rep, "\x1b") && !strings.Contains(ta+tb, "\x1b") {
				c.Violate("match-level-escape-sequence-in-nocolor", "", "ESC byte in the message of a failing call in NO_COLOR mode: "+vkit.Q(vkit.Clip(rep, 300)), in)
				return
			}
			body := rep
			if k := strings.LastIndex(strings.TrimSuffix(rep, "\n"), "\n"); k >= 0 && strings.HasPrefix(rep[k+1:], "at ") {
				body = rep[:k+1]
				c.Count("match_level_footers_seen", 1)
			} else {
				c.Violate("match-level-report-without-footer", "", vkit.Clip(rep, 300), in)
				return
			}
			if kd, dt := judgeReportText(body, ta, tb, len(splitLines(ta)), len(splitLines(tb))); kd != "" {
				class := ""
				if (api == "snap" || api == "yaml") && (hasLine(ta, "/-/-/-/") || hasLine(tb, "/-/-/-/")) {
					ua, ub := vkit.Unescape(ta), vkit.Unescape(tb)
					if k2, _ := judgeReportText(body, ua, ub, len(splitLines(ua)), len(splitLines(ub))); k2 == "" {
						// the report is right for the texts with every `/-/-/-/` line read as `---`
						class = "escape-marker-line-reported-as-terminator"
					}
				}
				c.Violate("match-level-"+kd, class, fmt.Sprintf("%s %s: %s | report %s", api, shape, dt, vkit.Q(vkit.Clip(rep, 400))), in)
			}
			c.Count("match_level_reports_judged:"+api, 1)
		})
		c.Count("match_level_shape:"+shape, 1)
		c.Case(vkit.Hash("match", api, ta, tb), ta != tb)
	}
}

func hasLine(s, l string) bool {
	for _, x := range strings.Split(s, "\n") {
		if x == l {
			return true
		}
	}
	return false
}

// c13Concurrent: several failing comparisons at once, all with the SAME received text and
// different stored texts (parallel table cases that produce one output against different
// stale snapshots); each report is judged against its own pair.
func c13Concurrent(c *vkit.Ctx) {
	n := c.N(300, 6000)
	for j := 0; j < n; j++ {
		i := 50000000 + j
		if !c.Mine(i) {
			continue
		}
		r := c.Rand("conc", j)
		var b string
		if r.IntN(2) == 0 {
			b = bigTextN(r, 300+r.IntN(1500))
		} else {
			b = midText(r)
		}
		k := 4 + r.IntN(8)
		as := make([]string, k)
		for x := range as {
			as[x] = editBig(r, b)
		}
		noColor := r.IntN(3) != 0
		snaps.VerifSetNoColor(noColor)
		kinds, details := make([]string, k), make([]string, k)
		var wg sync.WaitGroup
		for x := 0; x < k; x++ {
			wg.Add(1)
			go func(x int) {
				defer wg.Done()
				defer func() {
					if rec := recover(); rec != nil {
						kinds[x], details[x] = "panic", fmt.Sprint(rec)
					}
				}()
				for rep := 0; rep < 3; rep++ {
					if kd, dt := judgePairCur(as[x], b, noColor); kd != "" {
						kinds[x], details[x] = kd, dt
						return
					}
				}
			}(x)
		}
		wg.Wait()
		for x := 0; x < k; x++ {
			if kinds[x] != "" {
				c.Violate(kinds[x], "", fmt.Sprintf("%d comparisons at once with the same received text, nocolor=%v: %s", k, noColor, details[x]), map[string]any{"stored": vkit.Clip(as[x], 3000), "received": vkit.Clip(b, 3000), "no_color": noColor, "shape": "concurrent-same-received-text"})
				break
			}
		}
		c.Count("concurrent_batches_with_the_same_received_text", 1)
		c.Count("concurrent_comparisons", k*3)
		c.Case(vkit.Hash("conc", b, k, noColor), true)
	}
}

func drawPair(r *rand.Rand, j int) (a, b, shape string) {
	{
		switch x := r.IntN(20); {
		case x < 6:
			a, _ = vkit.Text(r, vkit.TextOpts{NoHuge: j%40 != 0, CREOL: true})
			b, shape = vkit.Pair(r, a, true)
			shape = "near:" + shape
		case x < 9:
			a, _ = vkit.Text(r, vkit.TextOpts{NoHuge: true, CREOL: true})
			b, _ = vkit.Text(r, vkit.TextOpts{NoHuge: true, CREOL: true})
			shape = "independent"
		case x < 12:
			a, _ = vkit.Line(r, vkit.TextOpts{NoHuge: true})
			if r.IntN(2) == 0 {
				b, _ = vkit.Pair(r, a, true)
			} else {
				b, _ = vkit.Line(r, vkit.TextOpts{NoHuge: true})
			}
			shape = "single-line"
		case x < 16:
			a = midText(r)
			b = editBig(r, a)
			shape = "11-40-lines"
		case x < 18:
			a = bigText(r)
			b = editBig(r, a)
			shape = "200-600-lines-repeated"
		case x < 19:
			a = bigText(r)
			b = bigText(r)
			shape = "200-600-lines-independent"
		default:
			a = strings.Join([]string{"- minus", "+ plus", "@@ -1 +1 @@", "  two spaces", ""}[:1+r.IntN(5)], "\n")
			b, _ = vkit.Pair(r, a, true)
			shape = "prefix-lookalike-lines"
		}
	}
	return a, b, shape
}

func judgeAndCount(c *vkit.Ctx, r *rand.Rand, j int, a, b, shape string, noColor bool) {
	{
		c.Guard([]string{vkit.Clip(a, 2000), vkit.Clip(b, 2000)}, func() {
			if k, d := judgePair(a, b, noColor); k != "" {
				class := ""
				if k == "empty-iff-identical" {
					class = utf8Class(noColor, a, b)
				}
				c.Violate(k, class, fmt.Sprintf("%s nocolor=%v: %s", shape, noColor, d), map[string]any{"stored": vkit.Clip(a, 4000), "received": vkit.Clip(b, 4000), "no_color": noColor, "shape": shape})
			}
		})
		c.Count("shape:"+shape, 1)
		if noColor {
			c.Count("random_pairs_nocolor", 1)
		} else {
			c.Count("random_pairs_colour", 1)
		}
		c.Case(vkit.Hash("r", a, b, noColor), a != b)
		if j%997 == 0 {
			c.Sample(map[string]any{"stored": vkit.Clip(a, 160), "received": vkit.Clip(b, 160), "no_color": noColor, "shape": shape})
		}
	}
}
