package enga

import (
	"fmt"
	"github.com/gkampitakis/go-snaps/match"
	"math/rand/v2"
	"os"
	"path/filepath"
	"strings"

	"github.com/gkampitakis/go-snaps/snaps"

	"verifharness/vkit"
)

func init() { register("C18", checkC18) }

type yInner struct {
	Label string            `yaml:"label"`
	Tags  []string          `yaml:"tags"`
	Attrs map[string]string `yaml:"attrs,omitempty"`
}

type yOuter struct {
	ID     int            `yaml:"id"`
	Name   string         `yaml:"name"`
	Inner  yInner         `yaml:"inner"`
	Items  []yInner       `yaml:"items"`
	Extras map[string]any `yaml:"extras"`
	skip   int
}

type yBase struct {
	Host string `yaml:"host"`
	Port int    `yaml:"port"`
}

type yAnchored struct {
	Base  *yBase `yaml:"base,anchor"`
	Name  string `yaml:"name"`
	Again *yBase `yaml:"again"`
}

// yamlGoValuePair: two values that share a pointer, one of them marking it as a YAML
// anchor; they are recorded in turns, each must marshal to its own text every time.
func yamlGoValuePair(r *rand.Rand) (any, any, string) {
	b := &yBase{Host: pick2(r, "db.internal", "h", "a: b"), Port: 5000 + r.IntN(1000)}
	return b, yAnchored{Base: b, Name: "svc", Again: &yBase{Host: "other", Port: 1}}, "pointer-shared-with-an-anchor-tagged-struct"
}

func yamlGoValue(r *rand.Rand) (any, string) {
	switch r.IntN(4) {
	case 0:
		m := map[string]any{}
		for i := 0; i < 3+r.IntN(6); i++ {
			m[fmt.Sprintf("key%02d", r.IntN(40))] = pick2[any](r, 1, "two", true, nil, []int{1, 2}, map[string]int{"z": 1, "a": 2, "m": 3})
		}
		m["zz"], m["aa"], m["mm"] = 1, 2, 3
		return m, "map>=3keys"
	case 1:
		return yOuter{ID: r.IntN(100), Name: pick2(r, "n", "---", "a: b"), Inner: yInner{Label: "l", Tags: []string{"x", "y"}, Attrs: map[string]string{"q": "1", "b": "2", "k": "3"}},
			Items: []yInner{{Label: "i1"}, {Label: "i2", Tags: []string{"t"}}}, Extras: map[string]any{"e3": 3, "e1": 1, "e2": []string{"a"}}}, "nested-struct"
	case 2:
		return []any{1, "two", map[string]any{"c": 1, "a": 2, "b": 3}, []string{"x"}}, "slice"
	default:
		return map[string]map[string]int{"outer2": {"z": 1, "y": 2, "x": 3}, "outer1": {"b": 1, "a": 2, "c": 3}, "outer3": {}}, "map-of-maps"
	}
}

func checkC18(c *vkit.Ctx) {
	c.P.Rule = "three sub-workloads: (a) valid YAML text (multi-document streams, block scalars containing `---` / `/-/-/-/`, comments, anchors, flow sequences that look like entry headers, with/without final newline, trailing blank lines, streams ending in a bare `---` line) passed as string or []byte to MatchYAML without matchers into a file that already holds a neighbour entry: the body found by the independent reader must equal the input with whole `---` lines escaped, byte for byte, and a replay in a fresh simulated process must pass without writing; (b) marshalable Go values (maps with >=3 keys, nested tagged structs, slices, maps of maps, a pointer value recorded in turns with an anchor-tagged struct that shares the pointer) recorded 50 times in fresh slots across simulated process restarts: all texts equal; (c) invalid YAML, alone or together with matchers that have nothing to object to (Any/Custom on an existing member, lenient Any/Type on a missing path, Any without paths), in four modes over missing/existing slots: exactly one Error, digest unchanged; non-trivial = document carrying >=1 hostile YAML class, any Go value, any invalid document; distinct by hash(input, form)"
	c.P.Assumptions = []string{"goccy/go-yaml's decoder decides which generated texts are valid YAML"}
	n := c.N(40000, 1000000)
	for i := 0; i < n; i++ {
		if !c.Mine(i) {
			continue
		}
		r := c.Rand("y", i)
		switch {
		case i%10 == 9:
			c.Guard(i, func() { c18GoValue(c, r, i) })
		case i%10 == 8:
			c.Guard(i, func() { c18Invalid(c, r, i) })
		default:
			c.Guard(i, func() { c18Verbatim(c, r, i) })
		}
	}
}

func c18Verbatim(c *vkit.Ctx, r *rand.Rand, i int) {
	cl := vkit.Classes{}
	text := vkit.YAMLDoc(r, []string{"[TestY - 1]", "[TestN - 1]"}, cl)
	if !yamlValid(text) {
		c.Count("generated_text_not_valid_yaml_skipped", 1)
		return
	}
	form := pick2(r, "string", "bytes")
	in := map[string]any{"input": text, "form": form, "classes": cl.List()}
	s := NewSess("c18")
	defer s.Close()
	path := s.MultiPath(Op{File: "y"})
	s.Seed(path, []vkit.Slot{{ID: "TestN - 1", Text: "neighbour\n", Raw: "neighbour\n"}})
	op := Op{API: "yaml", Test: "TestY", File: "y", Val: Val{Kind: "yaml", S: text, Form: form}}
	s.NewProcess(vkit.Mode{}, r.IntN(2) == 0)
	t := vkit.NewT("TestY")
	res := s.Step(t, op, vkit.Mode{})
	s.EndExec(t)
	c.Count("verbatim_records", 1)
	if res.Got != vkit.Added {
		c.Violate("valid-yaml-not-recorded", "", fmt.Sprintf("outcome %s: %s", res.Got, firstErr(res.Signals)), in)
		return
	}
	ents, torn := vkit.ReadSnapFile(path)
	if len(torn) > 0 {
		c.Violate("file-torn", "", strings.Join(torn, "; "), in)
		return
	}
	idx := vkit.FindEntries(ents, "TestY - 1")
	if len(idx) != 1 {
		c.Violate("entry-missing-or-duplicated", "", fmt.Sprint(ids(ents)), in)
		return
	}
	if got := ents[idx[0]].Body; got != vkit.Escape(text) {
		c.Violate("yaml-not-stored-verbatim", "", fmt.Sprintf("stored %s, input (escaped) %s", vkit.Q(got), vkit.Q(vkit.Escape(text))), in)
		return
	}
	if strings.HasSuffix(ents[idx[0]].Body, "\n") != strings.HasSuffix(text, "\n") {
		c.Violate("final-newline-changed", "", "", in)
		return
	}
	for _, p := range res.Problems {
		c.Violate("record-"+p.Kind, p.Class, p.Detail, in)
		return
	}
	// replay
	mode := []vkit.Mode{{}, {CI: true}, {UpdateVar: "true"}}[r.IntN(3)]
	s.NewProcess(mode, r.IntN(2) == 0)
	t = vkit.NewT("TestY")
	op.Val.Form = pick2(r, "string", "bytes")
	res = s.Step(t, op, mode)
	s.EndExec(t)
	c.Count("verbatim_replays", 1)
	if res.Got != vkit.Passed || len(res.Problems) > 0 {
		d := ""
		if len(res.Problems) > 0 {
			d = res.Problems[0].Detail
		}
		c.Violate("yaml-replay-failed", "", fmt.Sprintf("mode %+v: outcome %s %s %s", mode, res.Got, firstErr(res.Signals), d), in)
		return
	}
	// update: another document replaces it, again verbatim, and replays
	cl2 := vkit.Classes{}
	text2 := vkit.YAMLDoc(r, []string{"[TestY - 1]", "[TestN - 1]"}, cl2)
	if yamlValid(text2) && text2 != text {
		tr := true
		op2 := Op{API: "yaml", Test: "TestY", File: "y", Upd: &tr, Val: Val{Kind: "yaml", S: text2, Form: pick2(r, "string", "bytes")}}
		s.NewProcess(vkit.Mode{}, r.IntN(2) == 0)
		t = vkit.NewT("TestY")
		res = s.Step(t, op2, vkit.Mode{})
		s.EndExec(t)
		c.Count("verbatim_updates", 1)
		in["updated_to"] = text2
		if res.Got != vkit.Updated && !(res.Got == vkit.Passed && vkit.Unescape(text) == vkit.Unescape(text2)) {
			c.Violate("yaml-update-outcome", "", fmt.Sprintf("outcome %s: %s", res.Got, firstErr(res.Signals)), in)
			return
		}
		if res.Got == vkit.Updated {
			ents, torn = vkit.ReadSnapFile(path)
			idx = vkit.FindEntries(ents, "TestY - 1")
			if len(torn) > 0 || len(idx) != 1 || ents[idx[0]].Body != vkit.Escape(text2) {
				got := ""
				if len(idx) == 1 {
					got = ents[idx[0]].Body
				}
				c.Violate("yaml-update-not-stored-verbatim", "", fmt.Sprintf("after update: torn=%v entries=%v stored %s, input (escaped) %s", torn, ids(ents), vkit.Q(got), vkit.Q(vkit.Escape(text2))), in)
				return
			}
			f := false
			op2.Upd = &f
			s.NewProcess(vkit.Mode{}, true)
			t = vkit.NewT("TestY")
			res = s.Step(t, op2, vkit.Mode{})
			s.EndExec(t)
			if res.Got != vkit.Passed {
				c.Violate("yaml-replay-after-update-failed", "", fmt.Sprintf("outcome %s: %s", res.Got, firstErr(res.Signals)), in)
				return
			}
		}
	}
	for k := range cl {
		c.Count("class:"+k, 1)
	}
	c.Case(vkit.Hash("v", text, form), len(cl) > 0)
	if i%401 == 0 {
		c.Sample(in)
	}
}

func c18GoValue(c *vkit.Ctx, r *rand.Rand, i int) {
	v, kind := yamlGoValue(r)
	var alt any
	if r.IntN(5) == 0 {
		v, alt, kind = yamlGoValuePair(r)
	}
	root := vkit.MkScratch("c18g")
	defer os.RemoveAll(root)
	snaps.VerifSetMode(false, "")
	snaps.VerifSetNoColor(true)
	var first string
	var firsts [2]string
	for k := 0; k < 50; k++ {
		v := v
		which := 0
		if alt != nil && k%2 == 1 {
			v, which = alt, 1
		}
		if k%5 == 0 {
			snaps.VerifResetProcessState()
		}
		if k%6 == 4 {
			// in between, another Config with other options (among them the JSON format option,
			// which has no say in YAML) stores Go values and documents in another file: "the same
			// text every time" does not depend on what else the process snapshots
			oc := snaps.WithConfig(snaps.Dir(root), snaps.Filename("other"), snaps.Ext([]string{"", ".yaml"}[r.IntN(2)]),
				snaps.JSON(snaps.JSONConfig{Indent: []string{"", " ", "    ", "\t", "        "}[r.IntN(5)], Width: []int{0, 20, 200}[r.IntN(3)], SortKeys: r.IntN(2) == 0}))
			ot := vkit.NewT(fmt.Sprintf("TestO%d", k))
			nested := map[string]any{"svc": map[string]any{"ports": []any{1, map[string]any{"name": "x"}}}, "k": k}
			switch r.IntN(4) {
			case 0, 1:
				oc.MatchYAML(ot, nested)
			case 2:
				oc.MatchJSON(ot, nested)
			default:
				oc.MatchYAML(ot, "a:\n    b: 1\n")
			}
			ot.Take()
			ot.Finish()
			c.Count("go_value_recordings_after_another_config_with_other_options", 1)
		}
		name := fmt.Sprintf("TestG%d", k)
		t := vkit.NewT(name)
		snaps.WithConfig(snaps.Dir(root), snaps.Filename("g")).MatchYAML(t, v)
		out := vkit.Classify(t.Take())
		t.Finish()
		if out != vkit.Added {
			c.Violate("go-value-not-recorded", "", fmt.Sprintf("%s value: outcome %s", kind, out), map[string]any{"kind": kind})
			return
		}
		ents, _ := vkit.ReadSnapFile(filepath.Join(root, "g.snap"))
		idx := vkit.FindEntries(ents, name+" - 1")
		if len(idx) != 1 {
			c.Violate("entry-missing-or-duplicated", "", fmt.Sprint(ids(ents)), map[string]any{"kind": kind})
			return
		}
		body := ents[idx[0]].Body
		if k == 0 {
			first = body
		}
		if k < 2 {
			firsts[which] = body
		} else if body != firsts[which] {
			c.Violate("go-value-marshals-differently", "", fmt.Sprintf("%s value: recording %d gave %s, recording %d gave %s", kind, k, vkit.Q(body), which, vkit.Q(firsts[which])), map[string]any{"kind": kind})
			return
		}
		if which == 0 && strings.Contains(body, "*") && alt != nil {
			c.Violate("go-value-marshals-differently", "", fmt.Sprintf("%s value: the plain pointer value was written as an alias: %s", kind, vkit.Q(body)), map[string]any{"kind": kind})
			return
		}
		c.Count("go_value_recordings", 1)
	}
	// and it replays
	snaps.VerifResetProcessState()
	t := vkit.NewT("TestG0")
	snaps.WithConfig(snaps.Dir(root), snaps.Filename("g")).MatchYAML(t, v)
	if out := vkit.Classify(t.Take()); out != vkit.Passed {
		c.Violate("go-value-replay-failed", "", fmt.Sprintf("%s value: %s", kind, out), map[string]any{"kind": kind})
	}
	t.Finish()
	c.Count("go_value_kind:"+kind, 1)
	c.Case(vkit.Hash("g", first), true)
	if i%999 == 9 {
		c.Sample(map[string]any{"go_value_kind": kind, "marshalled": first})
	}
}

func c18Invalid(c *vkit.Ctx, r *rand.Rand, i int) {
	bad, class := vkit.InvalidYAML(r)
	if yamlValid(bad) {
		c.Count("premise_invalid_is_valid_skipped:"+class, 1)
		return
	}
	tr := true
	type md struct {
		name string
		m    vkit.Mode
		upd  *bool
	}
	m := []md{{"create-allowed", vkit.Mode{}, nil}, {"Update(true)", vkit.Mode{}, &tr}, {"UPDATE_SNAPS=true", vkit.Mode{UpdateVar: "true"}, nil}, {"CI", vkit.Mode{CI: true}, nil}}[r.IntN(4)]
	existing := r.IntN(2) == 0
	form := pick2(r, "string", "bytes")
	in := map[string]any{"invalid": bad, "class": class, "mode": m.name, "slot_exists": existing, "form": form}
	root := vkit.MkScratch("c18i")
	defer os.RemoveAll(root)
	snaps.VerifSetNoColor(true)
	if existing {
		snaps.VerifSetMode(false, "")
		snaps.VerifResetProcessState()
		t := vkit.NewT("TestI")
		snaps.WithConfig(snaps.Dir(root), snaps.Filename("i")).MatchYAML(t, "ok: true\n")
		t.Finish()
	}
	snaps.VerifSetMode(m.m.CI, m.m.UpdateVar)
	snaps.VerifResetProcessState()
	vkit.Backdate(root)
	d0 := vkit.TakeDigest(root)
	t := vkit.NewT("TestI")
	opts := []func(*snaps.Config){snaps.Dir(root), snaps.Filename("i")}
	if m.upd != nil {
		opts = append(opts, snaps.Update(*m.upd))
	}
	var arg any = bad
	if form == "bytes" {
		arg = []byte(bad)
	}
	// with and without matchers: matchers parse the document themselves, which must not
	// replace the validation
	var ms []match.YAMLMatcher
	mk := pick2(r, "none", "none", "any-on-a", "lenient-any-on-missing-path", "any-without-paths", "custom-on-a", "lenient-type-on-missing-path")
	switch mk {
	case "any-on-a":
		ms = append(ms, match.Any("$.a"))
	case "lenient-any-on-missing-path":
		ms = append(ms, match.Any("$.zz.missing").ErrOnMissingPath(false))
	case "any-without-paths":
		ms = append(ms, match.Any())
	case "custom-on-a":
		ms = append(ms, match.Custom("$.a", func(v any) (any, error) { return "<c>", nil }).ErrOnMissingPath(false))
	case "lenient-type-on-missing-path":
		ms = append(ms, match.Type[string]("$.zz.missing").ErrOnMissingPath(false))
	}
	in["matchers"] = mk
	c.Count("invalid_with_matchers:"+mk, 1)
	snaps.WithConfig(opts...).MatchYAML(t, arg, ms...)
	sig := t.Take()
	t.Finish()
	c.Count("invalid_calls", 1)
	c.Count("invalid:"+class, 1)
	if out := vkit.Classify(sig); out != vkit.Failed {
		c.Violate("invalid-yaml-not-failed", "", fmt.Sprintf("%s (%s) mode %s: outcome %s", vkit.Q(bad), class, m.name, out), in)
		return
	}
	if df := nonDir(d0.Diff(vkit.TakeDigest(root), false), d0); len(df) > 0 {
		c.Violate("invalid-yaml-wrote", "", fmt.Sprint(df), in)
		return
	}
	c.Case(vkit.Hash("i", bad, m.name, existing, form), true)
}
