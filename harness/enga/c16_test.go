package enga

import (
	"fmt"
	"math"
	"math/rand/v2"
	"os"
	"path/filepath"
	"strconv"
	"strings"

	"github.com/gkampitakis/go-snaps/match"
	"github.com/gkampitakis/go-snaps/snaps"

	"verifharness/vkit"
)

func init() { register("C16", checkC16) }

// userJSONMatcher / userYAMLMatcher: matchers implemented outside the library.
type userJSONMatcher struct{ inner match.JSONMatcher }

func (u userJSONMatcher) JSON(b []byte) ([]byte, []match.MatcherError) {
	out, errs := u.inner.JSON(b)
	all := []match.MatcherError{}
	return out, append(all, errs...)
}

type userYAMLMatcher struct{ inner match.YAMLMatcher }

func (u userYAMLMatcher) YAML(b []byte) ([]byte, []match.MatcherError) {
	out, errs := u.inner.YAML(b)
	all := []match.MatcherError{}
	return out, append(all, errs...)
}

func prefixRelated(a, b vkit.JPath) bool {
	n := len(a.Steps)
	if len(b.Steps) < n {
		n = len(b.Steps)
	}
	for i := 0; i < n; i++ {
		if a.Steps[i] != b.Steps[i] {
			return false
		}
	}
	return true
}

// redraw returns a different value of the same JSON kind (type-preserving).
func redraw(r *rand.Rand, n *vkit.JNode, yaml bool) *vkit.JNode {
	switch n.Kind {
	case "str":
		return &vkit.JNode{Kind: "str", S: n.S + pick2(r, "-changed", " v2", "ü", "\"q\"")}
	case "num":
		if yaml && !strings.ContainsAny(n.S, ".eE") {
			return &vkit.JNode{Kind: "num", S: fmt.Sprint(1000 + r.IntN(1000))}
		}
		if yaml {
			return &vkit.JNode{Kind: "num", S: fmt.Sprintf("%d.5", 1000+r.IntN(1000))}
		}
		return &vkit.JNode{Kind: "num", S: fmt.Sprint(1000 + r.IntN(1000))}
	case "bool":
		if n.S == "true" {
			return &vkit.JNode{Kind: "bool", S: "false"}
		}
		return &vkit.JNode{Kind: "bool", S: "true"}
	case "obj":
		c := n.Clone()
		c.Keys = append(c.Keys, "zz_extra")
		c.Vals = append(c.Vals, &vkit.JNode{Kind: "num", S: fmt.Sprint(r.IntN(100))})
		return c
	case "arr":
		c := n.Clone()
		c.Vals = append(c.Vals, &vkit.JNode{Kind: "str", S: "extra"})
		return c
	}
	return nil // null: only Any/Custom can mask it, redrawn by the caller
}

type maskSpec struct {
	Kind  string `json:"kind"`
	PathS string `json:"path"`
	PH    any    `json:"placeholder"`
}

// checkC16: record D1 with a set of matchers; D2 (differs from D1 only at masked
// paths, type preserved under Type) must pass against it and write nothing; D3
// (differs at one unmasked leaf) must fail with exactly one Error and write nothing.
func checkC16(c *vkit.Ctx) {
	c.P.Rule = "case = (document, 1-3 masked paths each with Any / Type of the value's type / accepting Custom, entry point MatchJSON|MatchStandaloneJSON|MatchYAML); D2 re-draws every masked value (same JSON kind, different content incl. non-ASCII and quotes; in one case of eight a lenient Any lists a masked path followed by a member below it and D2's masked value is an object that has that member), D3 changes one leaf that is neither under nor above a masked path; record D1, then D2 must pass and write nothing, D3 must produce exactly one Error with update disabled and write nothing; non-trivial = every judged triple; distinct by hash(document, masks, api)"
	n := c.N(50000, 1500000)
	for i := 0; i < n; i++ {
		if !c.Mine(i) {
			continue
		}
		r := c.Rand("t", i)
		c.Guard(i, func() { runC16(c, r, i) })
	}
}

func runC16(c *vkit.Ctx, r *rand.Rand, i int) {
	api := pick2(r, "json", "json", "sjson", "yaml", "yaml")
	yaml := api == "yaml"
	var d1 *vkit.JNode
	if yaml {
		d1 = vkit.YAMLTreeDoc(r, 3)
	} else {
		d1 = vkit.JSONObjectDoc(r, 3, 2, vkit.Classes{})
	}
	usable := func(p vkit.JPath) bool {
		if yaml {
			return true
		}
		return gjsonAddressable(p)
	}
	var masked []vkit.JPath
	var specs []maskSpec
	d2 := d1.Clone()
	// nest: one lenient Any lists a masked path and, after it, a member below it; in D2 the
	// masked value is an object that has that member (a change below a masked path)
	nest := r.IntN(8) == 0
	nestPath := ""
	nm := 1 + r.IntN(3)
	for k := 0; k < nm; k++ {
		p, ok := pickPath(r, d1, func(p vkit.JPath) bool {
			if !usable(p) {
				return false
			}
			for _, q := range masked {
				if prefixRelated(p, q) {
					return false
				}
			}
			return true
		})
		if !ok {
			break
		}
		target := d1.At(p)
		kind := pick2(r, "any", "type", "custom")
		if nest && k == 0 {
			kind = "any"
		}
		if target.Kind == "null" && kind == "type" {
			kind = "any"
		}
		nv := redraw(r, target, yaml)
		if nv == nil {
			nv = &vkit.JNode{Kind: "str", S: "was-null"}
			if kind == "type" {
				kind = "any"
			}
		}
		ps := p.GJSON()
		if yaml {
			ps = p.YAMLPath()
		}
		if nest && k == 0 {
			nv = &vkit.JNode{Kind: "obj", Keys: []string{"zzchild"}, Vals: []*vkit.JNode{{Kind: "str", S: "inner value"}}}
			nestPath = ps + ".zzchild"
		}
		d2.Set(p, nv)
		masked = append(masked, p)
		var ph any = pick2[any](r, "<masked>", "<masked>", "<mäsked>", "m \"q\"", 0, nil, "x")
		if r.IntN(5) == 0 {
			// a string placeholder that reads like one of the masked values (`"5"` over 5,
			// `"true"` over true, `""` over null, the very string over a string)
			src := target
			if r.IntN(2) == 0 {
				src = nv
			}
			switch src.Kind {
			case "num", "bool", "str":
				ph = src.S
			case "null":
				ph = ""
			}
			if src.Kind == "num" && r.IntN(2) == 0 {
				// ... or the number itself as a float64 (numerically equal to the masked value,
				// whatever its spelling: 1E+2, -0, 1.50)
				if f, err := strconv.ParseFloat(src.S, 64); err == nil && !math.IsInf(f, 0) {
					ph = f
				}
			}
			c.Count("placeholder_equal_to_text_of_a_masked_value", 1)
		}
		specs = append(specs, maskSpec{kind, ps, ph})
	}
	if len(masked) == 0 {
		return
	}
	// D3: one unmasked leaf changes
	d3 := d1.Clone()
	up, ok := pickPath(r, d1, func(p vkit.JPath) bool {
		t := d1.At(p)
		if t.Kind == "obj" || t.Kind == "arr" {
			return false
		}
		for _, q := range masked {
			if prefixRelated(p, q) {
				return false
			}
		}
		return true
	})
	haveD3 := ok
	if ok {
		t := d1.At(up)
		nv := redraw(r, t, yaml)
		if nv == nil {
			nv = &vkit.JNode{Kind: "str", S: "was-null"}
		}
		d3.Set(up, nv)
	}
	render := func(d *vkit.JNode) string {
		if yaml {
			return vkit.YAMLFromTree(d)
		}
		return d.Render(r, true)
	}
	t1, t2, t3 := render(d1), render(d2), render(d3)
	if yaml {
		for _, tx := range []string{t1, t2, t3} {
			docs, err := vkit.ParseYAMLDocs(tx)
			if err != nil || len(docs) != 1 {
				c.Count("premise_yaml_invalid", 1)
				return
			}
		}
	}
	in := map[string]any{"api": api, "masks": specs, "d1": vkit.Clip(t1, 1500), "d2": vkit.Clip(t2, 1500), "d3": vkit.Clip(t3, 1500)}
	root := vkit.MkScratch("c16")
	defer os.RemoveAll(root)
	snaps.VerifSetNoColor(true)
	// matchers are built ONCE and reused for every call of the case, the way a
	// package-level matcher variable or a table-driven test uses them
	lenient := r.IntN(3) == 0 || nestPath != ""
	group := r.IntN(2) == 0 || nestPath != ""
	var jms []match.JSONMatcher
	var yms []match.YAMLMatcher
	var anyPaths []string
	for k, s := range specs {
		if group && s.Kind == "any" {
			anyPaths = append(anyPaths, s.PathS)
			if k == 0 && nestPath != "" {
				anyPaths = append(anyPaths, nestPath)
				c.Count("lenient_any_listing_a_masked_path_and_a_member_below_it", 1)
			}
			continue
		}
		ms := mSpec{Kind: s.Kind, PathS: s.PathS, PH: s.PH, Lenient: lenient}
		if yaml {
			m, _, ok := buildYAMLMatcher(ms, d1.At(masked[k]))
			if !ok {
				panic("harness: cannot build matcher")
			}
			yms = append(yms, m)
		} else {
			m, _, ok := buildJSONMatcher(ms, d1.At(masked[k]))
			if !ok {
				panic("harness: cannot build matcher")
			}
			jms = append(jms, m)
		}
	}
	if len(anyPaths) > 0 {
		// one Any matcher carrying several paths
		m := match.Any(anyPaths...).Placeholder(pick2[any](r, "<grouped>", "<gröuped>", "g \"q\" \\", 7)).ErrOnMissingPath(!lenient)
		jms = append(jms, m)
		yms = append(yms, m)
	}
	if i%6 == 2 {
		// matchers written by the user (the two interfaces are exported): each wraps a library
		// matcher and reports "no errors" as an empty, non-nil slice - the library's own idiom
		// `errs := []match.MatcherError{}`
		for k := range jms {
			jms[k] = userJSONMatcher{jms[k]}
		}
		for k := range yms {
			yms[k] = userYAMLMatcher{yms[k]}
		}
		in["user_written_matchers"] = true
		c.Count("cases_with_user_written_matchers", 1)
	}
	in["matchers_reused"], in["lenient"], in["grouped_any_paths"] = true, lenient, anyPaths
	callTo := func(file, doc string, upd *bool) (string, vkit.Signals) {
		snaps.VerifResetProcessState()
		t := vkit.NewT("TestMask")
		opts := []func(*snaps.Config){snaps.Dir(root), snaps.Filename(file)}
		if upd != nil {
			opts = append(opts, snaps.Update(*upd))
		}
		cfg := snaps.WithConfig(opts...)
		switch api {
		case "yaml":
			cfg.MatchYAML(t, doc, yms...)
		case "json":
			cfg.MatchJSON(t, doc, jms...)
		default:
			cfg.MatchStandaloneJSON(t, doc, jms...)
		}
		sig := t.Take()
		t.Finish()
		return vkit.Classify(sig), sig
	}
	call := func(doc string, upd *bool) (string, vkit.Signals) { return callTo("mask", doc, upd) }
	if lenient {
		// warm-up on a document that lacks one of the masked paths (allowed: the matchers
		// ignore missing paths); it must not change what the matchers do afterwards
		d0 := d1.Clone()
		if d0.Delete(masked[r.IntN(len(masked))]) {
			t0 := render(d0)
			ok0 := true
			if yaml {
				docs, err := vkit.ParseYAMLDocs(t0)
				ok0 = err == nil && len(docs) == 1
			}
			if ok0 {
				snaps.VerifSetMode(false, "")
				callTo("warm", t0, nil)
				c.Count("lenient_warmups", 1)
			}
		}
	}
	snaps.VerifSetMode(false, "")
	if o, sig := call(t1, nil); o != vkit.Added {
		c.Count("premise_record_failed", 1)
		c.Note("record of D1 with matchers failed (allowed: matcher error): " + firstErr(sig))
		return
	}
	file := filepath.Join(root, "mask.snap")
	if api == "sjson" {
		file = filepath.Join(root, "mask_1.snap.json")
	}
	stored1, _ := os.ReadFile(file)
	vkit.Backdate(root)
	d0 := vkit.TakeDigest(root)
	f := false
	o2, sig2 := call(t2, &f)
	c.Count("masked_variant_calls", 1)
	if o2 != vkit.Passed {
		c.Violate("masked-field-influences-snapshot", "", fmt.Sprintf("%s: D2 differs from D1 only at masked paths %v but got %s: %s", api, specs, o2, firstErr(sig2)), in)
		return
	}
	if df := nonDir(d0.Diff(vkit.TakeDigest(root), false), d0); len(df) > 0 {
		c.Violate("masked-variant-wrote", "", fmt.Sprint(df), in)
		return
	}
	// D2 recorded alone stores the identical snapshot
	os.Remove(file)
	if o, _ := call(t2, nil); o == vkit.Added {
		stored2, _ := os.ReadFile(file)
		if string(stored1) != string(stored2) {
			c.Violate("masked-variants-store-different-snapshots", "", fmt.Sprintf("%s vs %s", vkit.Q(string(stored1)), vkit.Q(string(stored2))), in)
			return
		}
		c.Count("identical_store_checks", 1)
	}
	os.WriteFile(file, stored1, 0o644)
	if haveD3 {
		vkit.Backdate(root)
		d0 = vkit.TakeDigest(root)
		o3, sig3 := call(t3, &f)
		c.Count("unmasked_variant_calls", 1)
		if o3 != vkit.Failed {
			c.Violate("unmasked-change-not-reported", "", fmt.Sprintf("%s: D3 differs from D1 at unmasked %s but got %s (errors=%d)", api, plainPath(up), o3, len(sig3.Errors)), in)
			return
		}
		if df := nonDir(d0.Diff(vkit.TakeDigest(root), false), d0); len(df) > 0 {
			c.Violate("unmasked-variant-wrote", "", fmt.Sprint(df), in)
			return
		}
	}
	c.Count("api:"+api, 1)
	for _, s := range specs {
		c.Count("mask:"+s.Kind, 1)
	}
	c.Case(vkit.Hash(t1, fmt.Sprint(specs), api), true)
	if i%701 == 0 {
		c.Sample(in)
	}
}
