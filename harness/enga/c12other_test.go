package enga

import (
	"fmt"

	"github.com/gkampitakis/go-snaps/snaps"

	"verifharness/vkit"
)

// callEntryOtherFile issues the same calls as callEntry, but the call statements sit in
// a second test source file: a test helper that lives in its own _test.go file. The
// default snapshot file name of these calls is this file's base name.
//
//go:noinline
func callEntryOtherFile(c *snaps.Config, t *vkit.T, api string, pos int) {
	switch api {
	case "snap":
		c.MatchSnapshot(t, fmt.Sprintf("value-%d", pos))
	case "json":
		c.MatchJSON(t, fmt.Sprintf(`{"pos":%d,"b":[1,2,3,4,5,6,7,8,9,10,11,12],"a":"x"}`, pos))
	case "yaml":
		c.MatchYAML(t, fmt.Sprintf("pos: %d\nlist:\n  - a\n", pos))
	case "ssnap":
		c.MatchStandaloneSnapshot(t, fmt.Sprintf("standalone-%d", pos))
	case "sjson":
		c.MatchStandaloneJSON(t, fmt.Sprintf(`{"pos":%d,"b":[1,2,3,4,5,6,7,8,9,10,11,12],"a":"x"}`, pos))
	}
}
