package enga

import (
	"encoding/json"
	"fmt"
	"os"
	"path/filepath"
	"strings"

	"github.com/gkampitakis/go-snaps/snaps"

	"verifharness/vkit"
)

func init() { register("C19", checkC19) }

var c19Names = []string{"TestS", "TestS/sub", "TestS/sub/deep", "TestT", "TestT#01", "TestÜ/ünï", "TestP/100%", "TestP/%d_lit", "TestP/%s%v", "TestQ/a_b", "TestV/v1.2", "TestV/v1.3", "TestV/input.json", "TestV/input.yaml"}

// checkC19: standalone histories. Step() already decides per call: the outcome,
// that the k-th call of an execution hits file k (the expected path is the one
// whose bytes are compared), that the bytes are exactly the formatted value, and
// that nothing else in the directory moves.
func checkC19(c *vkit.Ctx) {
	c.P.Rule = "case = standalone history: 1-5 tests (names with nested subtests, `#01`, unicode, `%` verbs) each making 1-12 MatchStandaloneSnapshot / MatchStandaloneJSON calls, 1-3 executions per test, values = arbitrary bytes incl. lines ending in \\r, CRLF, NUL, no final newline, empty; three simulated processes: record, update run (random subset changes to shorter/longer values, update enabled), read-only replay; in every 3rd history standalone files (<= 8 KiB) the process already read or wrote are rewritten between two calls, mostly to other bytes of the same length, and the next call reaching the file is judged against the new bytes; plus 300 (thorough 6000) executions in which the value of a standalone call takes 1-2 standalone snapshots itself while it is formatted (GoString): file n holds the value of the n-th call entered; one session in five lives below the start directory and changes the working directory between calls; oracle per call: outcome vs slot model, file k of the test holds exactly the formatted bytes (kr/pretty for values, canonical pretty JSON which must be json.Valid for JSON), no other path touched; non-trivial = history with >=2 calls in some test or a hostile byte class or a `%` name; distinct by hash of history"
	c.P.Assumptions = []string{"kr/pretty is the formatter of MatchStandaloneSnapshot values (trusted); tidwall/pretty with the default options is the canonical JSON form"}
	n := c.N(3000, 100000)
	for i := 0; i < n; i++ {
		if !c.Mine(i) {
			continue
		}
		r := c.Rand("h", i)
		h := History{Classes: vkit.Classes{}}
		names := append([]string(nil), c19Names...)
		r.Shuffle(len(names), func(a, b int) { names[a], names[b] = names[b], names[a] })
		nt := 1 + r.IntN(5)
		seen := map[string]bool{}
		for _, name := range names[:nt] {
			key := strings.ReplaceAll(name, "/", "_")
			if seen[key] {
				continue
			}
			seen[key] = true
			tp := TestPlan{Name: name, Execs: 1 + r.IntN(3)}
			no := 1 + r.IntN(4)
			if r.IntN(5) == 0 {
				no = 5 + r.IntN(8)
			}
			for j := 0; j < no; j++ {
				api := pick2(r, "ssnap", "ssnap", "sjson")
				op := Op{API: api, Test: name}
				op.Val = genValue(r, api, nil, HistOpts{NoHuge: i%9 != 0}, h.Classes)
				if r.IntN(6) == 0 {
					op.Ext = ".txt"
				}
				if api == "sjson" && r.IntN(6) == 0 {
					// a rejected call still consumes its ordinal: later calls keep their files
					if r.IntN(2) == 0 {
						bad, _ := vkit.InvalidJSON(r)
						if !json.Valid([]byte(bad)) {
							op.Val = Val{Kind: "json", S: bad, Form: "string"}
							op.Fail = "invalid"
						}
					} else {
						op.Fail = "matcher"
						if r.IntN(2) == 0 {
							// rejected only in the first execution (a flaky input): the same call of later
							// executions is valid and must land in the same file k
							op.FailOnlyExec = 1
							h.Classes["call-rejected-only-in-first-execution"] = true
						}
					}
					h.Classes["rejected-call-midway"] = true
				}
				tp.Ops = append(tp.Ops, op)
			}
			if no >= 2 {
				h.Classes["multiple-calls"] = true
			}
			if strings.Contains(name, "%") {
				h.Classes["percent-in-name"] = true
			}
			h.Tests = append(h.Tests, tp)
		}
		h.Interleave = r.IntN(3) == 0
		h.ClassList = h.Classes.List()
		c.Guard(histSample(&h), func() { runC19(c, i, &h) })
	}
	nr := c.N(300, 6000)
	for j := 0; j < nr; j++ {
		i := 70000000 + j
		if !c.Mine(i) {
			continue
		}
		c.Guard(i, func() { c19Reentrant(c, j) })
	}
}

// section is a value whose formatting (GoString, which kr/pretty calls) takes a standalone
// snapshot of its own through the same Config and handle: a report that snapshots its parts
// while it is rendered. The outer call was entered first and owns the lower ordinal.
type section struct {
	text  string
	inner func()
}

func (s section) GoString() string {
	if s.inner != nil {
		s.inner()
	}
	return s.text
}

// c19Reentrant: k plain standalone calls, one call whose value makes 1-2 nested standalone
// calls while it is formatted, one more plain call; file n must hold the value of the n-th
// call ENTERED, in every one of two executions.
func c19Reentrant(c *vkit.Ctx, j int) {
	r := c.Rand("reentrant", j)
	root := vkit.MkScratch("c19r")
	defer os.RemoveAll(root)
	snaps.VerifResetProcessState()
	snaps.VerifSetMode(false, "")
	snaps.VerifSetNoColor(true)
	cfg := snaps.WithConfig(snaps.Dir(root), snaps.Filename("x"))
	before, nested := r.IntN(3), 1+r.IntN(2)
	in := map[string]any{"part": "re-entrant standalone calls", "plain_calls_before": before, "nested_calls": nested}
	for exec := 1; exec <= 2; exec++ {
		t := vkit.NewT("TestR")
		var want []string
		for k := 0; k < before; k++ {
			v := fmt.Sprintf("plain %d", k)
			cfg.MatchStandaloneSnapshot(t, v)
			want = append(want, v)
		}
		outer := fmt.Sprintf("section(%d nested)", nested)
		want = append(want, outer)
		for k := 0; k < nested; k++ {
			want = append(want, fmt.Sprintf("inner %d", k))
		}
		cfg.MatchStandaloneSnapshot(t, section{text: outer, inner: func() {
			for k := 0; k < nested; k++ {
				cfg.MatchStandaloneSnapshot(t, fmt.Sprintf("inner %d", k))
			}
		}})
		cfg.MatchStandaloneSnapshot(t, "last")
		want = append(want, "last")
		sg := t.Take()
		t.Finish()
		if len(sg.Errors) > 0 {
			c.Violate("reentrant-standalone-call-failed", "", fmt.Sprintf("execution %d: %s", exec, vkit.Clip(vkit.StripANSI(sg.Errors[0]), 300)), in)
			return
		}
		for n, w := range want {
			b, err := os.ReadFile(filepath.Join(root, fmt.Sprintf("x_%d.snap", n+1)))
			if err != nil || string(b) != w {
				c.Violate("standalone-ordinal-not-in-call-order", "", fmt.Sprintf("execution %d: file x_%d.snap holds %s, the %d-th call entered had the value %s", exec, n+1, vkit.Q(string(b)), n+1, vkit.Q(w)), in)
				return
			}
		}
		c.Count("reentrant_standalone_executions", 1)
	}
	c.Case(vkit.Hash("reentrant", before, nested), true)
}

func pctClass(h *History, o Op) string {
	if strings.Contains(o.Test, "%") {
		return "percent-in-standalone-path"
	}
	return ""
}

func runC19(c *vkit.Ctx, i int, h *History) {
	r := c.Rand("run", i)
	s := NewSess("c19")
	if i%5 == 1 {
		// the snapshot tree lies below the directory the process was started in and the tests
		// change the working directory (t.Chdir, os.Chdir) between calls: an ordinary build
		// addresses its files by absolute paths, so nothing may change
		s.Close()
		s = NewSessBelowStartDir("c19")
	}
	defer s.Close()
	if i%4 == 3 {
		// the snapshot directory does not exist yet (and may contain a percent sign): only a
		// call that stores something may create it
		s.Sub = SubDirs[(i/4)%len(SubDirs)]
		c.Count("sessions_whose_snapshot_directory_does_not_exist_yet", 1)
	}
	s.ShareConfigs = i%2 == 0
	s.ZeroConfigs = i%4 == 1
	if s.ShareConfigs {
		c.Count("histories_through_shared_config_objects", 1)
	}
	stopped := false
	// Between two calls of a process something else may rewrite a standalone file the
	// process has already read or written (an editor, a checkout, a formatter): the next
	// call that reaches the file must compare against the bytes on disk. Most edits keep
	// the length (and so the size) of the file; the mtime is backdated by Step anyway.
	edits := 0
	if i%3 == 0 {
		er := c.Rand("edit", i)
		s.BeforeStep = func(o Op) {
			if er.IntN(5) != 0 {
				return
			}
			fs := s.StandaloneFiles()
			if len(fs) == 0 {
				return
			}
			p := fs[er.IntN(len(fs))]
			old := s.Store.Files[p][0].Text
			if len(old) > 8<<10 {
				// the report of two long single-line texts is a character-level diff, quadratic
				// in their length (minutes for 1 MiB): slow, not wrong, and not what is decided here
				return
			}
			var nw string
			switch x := er.IntN(4); {
			case x == 0 || old == "":
				nw = old + "tail"
				h.Classes["foreign-edit-between-calls-longer"] = true
			case x == 1 && len(old) >= 2 && old[0] != old[len(old)-1]:
				b := []byte(old)
				b[0], b[len(b)-1] = b[len(b)-1], b[0]
				nw = string(b)
				h.Classes["foreign-edit-between-calls-same-length"] = true
			default:
				b := []byte(old)
				k := er.IntN(len(b))
				if b[k] == 'x' {
					b[k] = 'y'
				} else {
					b[k] = 'x'
				}
				nw = string(b)
				h.Classes["foreign-edit-between-calls-same-length"] = true
			}
			s.ForeignEditStandalone(p, nw)
			edits++
			c.Count("foreign_edits_between_calls", 1)
		}
	}
	if i%5 == 1 {
		cr := c.Rand("chdir", i)
		edit := s.BeforeStep
		s.BeforeStep = func(o Op) {
			if edit != nil {
				edit(o)
			}
			if cr.IntN(3) == 0 {
				to := []string{"/", s.Root, os.TempDir(), startDir, filepath.Dir(startDir)}[cr.IntN(5)]
				if os.Chdir(to) == nil {
					c.Count("working_directory_changes_between_calls", 1)
				}
			}
		}
		h.Classes["working-directory-changes-between-calls"] = true
	}
	report := func(phase string) func(o Op, res StepResult) bool {
		return func(o Op, res StepResult) bool {
			c.Count(phase+"_calls", 1)
			c.Count(phase+"_outcome_"+res.Got, 1)
			if o.API == "sjson" && (res.Got == vkit.Added || res.Got == vkit.Updated) && len(res.Problems) == 0 {
				b, _ := os.ReadFile(res.Path)
				if !json.Valid(b) {
					c.Violate("standalone-json-invalid", "", vkit.Q(string(b)), map[string]any{"history": h, "op": o})
				}
				c.Count("json_valid_checks", 1)
			}
			if len(res.Problems) == 0 {
				return true
			}
			stopped = true
			p := res.Problems[0]
			class := p.Class
			if class == "" {
				class = pctClass(h, o)
			}
			c.Violate(phase+"-"+p.Kind, class, fmt.Sprintf("%s: %s", phase, p.Detail), map[string]any{"history": h, "op": o, "k": res.K})
			return false
		}
	}
	s.RunProcess(r, h, vkit.Mode{}, r.IntN(2) == 0, nil, report("record"))
	if !stopped {
		om := onModes()[r.IntN(len(onModes()))]
		mutate := func(upd *bool) func(tp *TestPlan, idx int, op *Op) {
			return func(tp *TestPlan, idx int, op *Op) {
				op.Upd = upd
				mr := mutRand(c.P.Seed+int64(i), 2, tp.Name, idx)
				if mr.IntN(3) != 0 || op.Fail != "" {
					return
				}
				if op.API == "ssnap" {
					nb, _ := newBody(mr, op.Val.S, nil)
					op.Val = Val{Kind: "str", S: nb}
				} else {
					op.Val = genValue(mr, op.API, nil, HistOpts{NoHuge: true}, vkit.Classes{})
				}
			}
		}
		s.RunProcess(r, h, om.Mode, r.IntN(2) == 0, mutate(om.Upd), report("update"))
		if !stopped {
			f := false
			s.RunProcess(r, h, vkit.Mode{CI: r.IntN(2) == 0}, r.IntN(2) == 0, mutate(&f), func(o Op, res StepResult) bool {
				c.Count("replay_calls", 1)
				want := vkit.Passed
				if o.Fail != "" {
					want = vkit.Failed // a rejected call is rejected again, and still consumes its ordinal
				}
				if edits > 0 {
					want = res.Expected // files edited behind the library's back fail until updated
				}
				if res.Got != want || len(res.Problems) > 0 {
					stopped = true
					d := firstErr(res.Signals)
					if len(res.Problems) > 0 {
						d = res.Problems[0].Detail
					}
					c.Violate("replay-not-passed", pctClass(h, o), fmt.Sprintf("%s k=%d got %s: %s", describeOp(o), res.K, res.Got, d), map[string]any{"history": h, "op": o})
					return false
				}
				return true
			})
		}
	}
	for k := range h.Classes {
		c.Count("class:"+k, 1)
	}
	c.Case(histHash(h), len(h.Classes) > 0)
	c.Sample(histSample(h))
}
