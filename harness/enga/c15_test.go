package enga

import (
	"bytes"
	"encoding/json"
	"fmt"
	goyaml "github.com/goccy/go-yaml"
	"math"
	"math/rand/v2"
	"os"
	"path/filepath"
	"reflect"
	"sort"
	"strings"

	"github.com/gkampitakis/go-snaps/match"
	"github.com/gkampitakis/go-snaps/snaps"

	"verifharness/vkit"
)

func init() { register("C15", checkC15) }

type mSpec struct {
	Lenient bool       `json:"lenient,omitempty"` // ErrOnMissingPath(false)
	Kind    string     `json:"kind"`              // any | type | custom
	Path    vkit.JPath `json:"-"`
	PathS   string     `json:"path"`
	PH      any        `json:"placeholder"`
	PHKind  string     `json:"placeholder_kind"`
}

// phLabel is a named string type (an enum-like label used as placeholder).
type phLabel string

func drawPlaceholder(r *rand.Rand) (any, string) {
	if r.IntN(4) == 0 {
		// placeholders whose YAML rendering spans several lines (block collections with keys
		// of different lengths, literal-style strings) or nests collections
		switch r.IntN(10) {
		case 6:
			return map[string]any{"ab": 1}, "map-single-key-2"
		case 7:
			return map[string]any{"abc": "x", "d": []any{"p", map[string]any{"q": "multi\nline"}}}, "map-key-3-nested"
		case 8:
			return "a\nb", "string-multi-line-no-final-newline"
		case 9:
			return "  indented first line\n\nblank above\n", "string-multi-line-indented"
		case 0:
			return map[string]any{"redacted": true, "why": "secret"}, "map-long-keys"
		case 1:
			return map[string]any{"redacted": true}, "map-single-key"
		case 2:
			return "line1\nline2\n", "string-multi-line"
		case 3:
			return []any{map[string]any{"k": "v"}, "multi\nline"}, "slice-nested"
		case 4:
			return map[string]any{"a": map[string]any{"b": []any{1, 2}}}, "map-nested"
		default:
			return map[string]any{"a-very-long-key-name-for-a-placeholder": 1, "z": []any{}}, "map-very-long-key"
		}
	}
	if r.IntN(6) == 0 {
		// strings that are YAML syntax when written plain
		return []string{"- a", "---", "...", "\t", "a: b", "#x", "[", "{", "]", "}", "? x", "| ", "> ", "|", ">", "!tag", "&a", "*a", "@", "`", "%", "'", "\"", " lead", "trail ", "", "~", "on", "yes", "0o17", "1_000", ".inf", ".nan", "2001-12-14", "<<", "=", "a #b", "a: ", "- ", "-", ":", ",", "a,b", "[a]", "{a: b}", "--- x", "a\tb", "é: ü", "\u00a0", "x\u2028y", "\x7f", "\x01"}[r.IntN(52)], "string-yaml-syntax"
	}
	if r.IntN(12) == 0 {
		// the same kind of text in a value that is string-kinded but not of type string
		return phLabel([]string{"- a", "---", "...", "\t", "a: b", ".inf", "~", "true", "007", "plain", "multi\nline", ""}[r.IntN(12)]), "named-string-type"
	}
	switch r.IntN(10) {
	case 0:
		return "x", "string-short"
	case 1:
		return strings.Repeat("long placeholder ", 8), "string-long"
	case 2:
		return "<Any value>", "string-default"
	case 3:
		return 12345, "number"
	case 4:
		return true, "bool"
	case 5:
		return nil, "null"
	case 6:
		return map[string]any{"x": 1, "y": "two"}, "map"
	case 7:
		return []any{1, "b", nil}, "slice"
	case 8:
		// strings that would resolve to another type if written as plain YAML scalars
		return []string{"10", "007", "3.14", "0x1F", "true", "false", "null", "~", "1e3"}[r.IntN(9)], "string-looking-like-another-type"
	default:
		return "with \"quotes\" and \\ and \n", "string-escapes"
	}
}

// yamlPHClass names the placeholder shapes goccy's replace mis-indents (block mappings:
// by the length of their first key; literal block scalars: not at all) - see
// known_findings.json, fixed entry of C15.
func yamlPHClass(ph any, depth int) string {
	b, err := goyaml.Marshal(ph)
	if err != nil {
		return ""
	}
	if v := reflect.ValueOf(ph); v.IsValid() && v.Kind() == reflect.Map && v.Len() > 0 {
		return "yaml-placeholder-rendered-as-block-mapping"
	}
	if strings.HasPrefix(string(b), "|") || strings.HasPrefix(string(b), ">") {
		return "yaml-placeholder-rendered-as-literal-block-scalar"
	}
	return ""
}

// yamlStyleClass names the document shapes around the target that goccy's AST printer
// gets wrong after a replacement (open entries of known_findings.json):
//   - the target's own key line carries a comment and its value is a block collection
//     on the following lines (`items: # note` / `  - a`): the comment is printed
//     between the key and the colon;
//   - the target lies inside a flow collection and the replacement is written as a plain
//     scalar containing a flow indicator or a colon (`<Type:...>`, `a,b`), which the
//     parser splits, rejects or reads as a mapping in flow context, or renders as a
//     block sequence.
func yamlStyleClass(st *vkit.YAMLStyle, p vkit.JPath, kind string, want any) string {
	if st.CommentedKeys[p.YAMLPath()] {
		return "yaml-target-key-carries-a-comment-before-its-block-value"
	}
	for k := len(p.Steps) - 1; k >= 1; k-- {
		if st.Flow[vkit.JPath{Steps: p.Steps[:k]}.YAMLPath()] {
			b, _ := goyaml.Marshal(want)
			t := strings.TrimSuffix(string(b), "\n")
			plain := !strings.HasPrefix(t, "\"") && !strings.HasPrefix(t, "'")
			if kind == "type" || strings.HasPrefix(t, "- ") || (plain && strings.ContainsAny(t, ",[]{}:")) {
				return "yaml-plain-placeholder-with-flow-indicators-or-block-sequence-inside-a-flow-collection"
			}
		}
	}
	return ""
}

// yamlApply runs a YAML matcher; a panic inside it is a violation of its own kind.
func yamlApply(c *vkit.Ctx, class string, in any, f func() ([]byte, []match.MatcherError)) (out []byte, errs []match.MatcherError, ok bool) {
	defer func() {
		if r := recover(); r != nil {
			c.Violate("matcher-panicked", class, fmt.Sprintf("YAML matcher panicked: %v", r), in)
			ok = false
		}
	}()
	out, errs = f()
	return out, errs, true
}

func scalarPH(k string) bool { return !strings.HasPrefix(k, "map") && !strings.HasPrefix(k, "slice") }

func typeName(n *vkit.JNode, yaml bool) (string, bool) {
	switch n.Kind {
	case "str":
		return "string", true
	case "num":
		if yaml {
			if strings.ContainsAny(n.S, ".eE") {
				return "float64", true
			}
			return "uint64", true
		}
		return "float64", true
	case "bool":
		return "bool", true
	case "obj":
		return "map[string]interface {}", true
	case "arr":
		return "[]interface {}", true
	}
	return "", false
}

func buildJSONMatcher(s mSpec, target *vkit.JNode) (match.JSONMatcher, any, bool) {
	switch s.Kind {
	case "any":
		return match.Any(s.PathS).Placeholder(s.PH).ErrOnMissingPath(!s.Lenient), s.PH, true
	case "custom":
		return match.Custom(s.PathS, func(val any) (any, error) { return s.PH, nil }).ErrOnMissingPath(!s.Lenient), s.PH, true
	case "type":
		tn, ok := typeName(target, false)
		if !ok {
			return nil, nil, false
		}
		ph := "<Type:" + tn + ">"
		switch target.Kind {
		case "str":
			return match.Type[string](s.PathS).ErrOnMissingPath(!s.Lenient), ph, true
		case "num":
			return match.Type[float64](s.PathS).ErrOnMissingPath(!s.Lenient), ph, true
		case "bool":
			return match.Type[bool](s.PathS).ErrOnMissingPath(!s.Lenient), ph, true
		case "obj":
			return match.Type[map[string]any](s.PathS).ErrOnMissingPath(!s.Lenient), ph, true
		case "arr":
			return match.Type[[]any](s.PathS).ErrOnMissingPath(!s.Lenient), ph, true
		}
	}
	return nil, nil, false
}

func buildYAMLMatcher(s mSpec, target *vkit.JNode) (match.YAMLMatcher, any, bool) {
	switch s.Kind {
	case "any":
		return match.Any(s.PathS).Placeholder(s.PH).ErrOnMissingPath(!s.Lenient), s.PH, true
	case "custom":
		return match.Custom(s.PathS, func(val any) (any, error) { return s.PH, nil }).ErrOnMissingPath(!s.Lenient), s.PH, true
	case "type":
		tn, ok := typeName(target, true)
		if !ok {
			return nil, nil, false
		}
		ph := "<Type:" + tn + ">"
		switch {
		case target.Kind == "str":
			return match.Type[string](s.PathS), ph, true
		case target.Kind == "num" && tn == "uint64":
			return match.Type[uint64](s.PathS), ph, true
		case target.Kind == "num":
			return match.Type[float64](s.PathS), ph, true
		case target.Kind == "bool":
			return match.Type[bool](s.PathS), ph, true
		case target.Kind == "obj":
			return match.Type[map[string]any](s.PathS), ph, true
		case target.Kind == "arr":
			return match.Type[[]any](s.PathS), ph, true
		}
	}
	return nil, nil, false
}

// addressable: gjson cannot address an empty key, and a numeric-looking key of an object is ambiguous with an index.
func gjsonAddressable(p vkit.JPath) bool {
	for _, s := range p.Steps {
		if !s.IsIdx && (s.Key == "" || isDigits(s.Key)) {
			return false
		}
	}
	return true
}

func isDigits(s string) bool {
	if s == "" {
		return false
	}
	for _, c := range s {
		if c < '0' || c > '9' {
			return false
		}
	}
	return true
}

func checkC15(c *vkit.Ctx) {
	c.P.Rule = "four sub-workloads on generated documents: (A) one JSON matcher (Any with placeholders of every JSON kind, shorter/longer than the replaced value; Type of the right type; Custom) applied directly to an existing path (members incl. keys needing escapes, array elements, nested) - output must be valid JSON and decode, member order included, to set(decode(input), path, placeholder); (B) 1-3 matchers through snaps.MatchJSON/MatchStandaloneJSON with a []byte input carved out of a larger buffer - stored text must equal the left-to-right tree model and the caller's bytes and the guard regions must be unchanged; (C) one YAML matcher applied directly, judged against goccy's ordered decode; (D) snaps.MatchYAML with []byte input and the same canary; (E) one Any/Type matcher with several paths: unrelated paths against the tree model, and overlapping paths (parent before child, child before parent, same path twice) against the same paths applied one after the other (left to right), JSON and YAML; (F) one Any matcher value applied, re-configured through Placeholder/ErrOnMissingPath and applied again, each application compared with a matcher built with the current settings; non-trivial = placeholder raw length differs from the replaced value, or the path needs escapes, or >= 2 matchers; distinct by hash(document, matchers)"
	c.P.Assumptions = []string{"encoding/json (ordered token walk) and goccy's ordered-map decoder are the tree oracles", "a matcher that reports an error on an existing path is allowed by the statement; such cases are counted, not judged"}
	n := c.N(100000, 3000000)
	for i := 0; i < n; i++ {
		if !c.Mine(i) {
			continue
		}
		r := c.Rand("m", i)
		switch i % 4 {
		case 0:
			c.Guard(i, func() { c15JSONDirect(c, r, i) })
		case 1:
			c.Guard(i, func() { c15JSONSnaps(c, r, i) })
		case 2:
			c.Guard(i, func() { c15YAMLDirect(c, r, i) })
		default:
			c.Guard(i, func() { c15YAMLSnaps(c, r, i) })
		}
	}
	nd := c.N(1500, 40000)
	for j := 0; j < nd; j++ {
		i := 60000000 + j
		if !c.Mine(i) {
			continue
		}
		c.Guard(i, func() { c15DollarMember(c, j) })
	}
}

// c15DollarMember: JSON documents that really have a member named `$` (JSON-schema and
// MongoDB style documents do), holding members with the same names as the root. A JSON path
// is a gjson path: `$.id` is member `id` of member `$` and nothing else - the YAML spelling
// of the root has no meaning here.
func c15DollarMember(c *vkit.Ctx, j int) {
	r := c.Rand("dollar", j)
	keys := []string{"id", "name", "meta", "n"}
	root := map[string]any{}
	inner := map[string]any{}
	for _, k := range keys {
		if r.IntN(3) != 0 {
			root[k] = []any{"stable-" + k, float64(r.IntN(100)), true, map[string]any{"x": 1.0}}[r.IntN(4)]
		}
		if r.IntN(3) != 0 {
			inner[k] = []any{"attr-" + k, float64(r.IntN(100)), false, []any{1.0}}[r.IntN(4)]
		}
	}
	if len(inner) == 0 {
		inner["id"] = "attr-id"
	}
	root["$"] = inner
	var ik []string
	for k := range inner {
		ik = append(ik, k)
	}
	sort.Strings(ik)
	k := ik[r.IntN(len(ik))]
	doc, _ := json.Marshal(root)
	path := "$." + k
	var m match.JSONMatcher
	kind := []string{"any", "type", "custom"}[r.IntN(3)]
	var want any = "<masked>"
	switch kind {
	case "any":
		m = match.Any(path).Placeholder("<masked>")
	case "custom":
		m = match.Custom(path, func(v any) (any, error) {
			if !reflect.DeepEqual(v, inner[k]) {
				return nil, fmt.Errorf("callback got %v, the value at %s is %v", v, path, inner[k])
			}
			return "<masked>", nil
		})
	default:
		switch inner[k].(type) {
		case string:
			m, want = match.Type[string](path), "<Type:string>"
		case float64:
			m, want = match.Type[float64](path), "<Type:float64>"
		case bool:
			m, want = match.Type[bool](path), "<Type:bool>"
		default:
			m, want = match.Type[[]any](path), "<Type:[]interface {}>"
		}
	}
	in := map[string]any{"part": "member named $", "document": string(doc), "path": path, "matcher": kind}
	out, errs := m.JSON(append([]byte(nil), doc...))
	if len(errs) > 0 {
		c.Violate("matcher-error-on-existing-path", "", fmt.Sprintf("%s on %s: %v", kind, path, errs[0].Reason), in)
		return
	}
	var got map[string]any
	if err := json.Unmarshal(out, &got); err != nil {
		c.Violate("matcher-output-not-json", "", err.Error()+": "+vkit.Q(string(out)), in)
		return
	}
	wantDoc := map[string]any{}
	for rk, rv := range root {
		wantDoc[rk] = rv
	}
	wi := map[string]any{}
	for kk, vv := range inner {
		wi[kk] = vv
	}
	wi[k] = want
	wantDoc["$"] = wi
	if !reflect.DeepEqual(got, wantDoc) {
		wb, _ := json.Marshal(wantDoc)
		c.Violate("matcher-changed-other-than-target", "", fmt.Sprintf("%s(%q): output %s, expected %s", kind, path, vkit.Q(string(out)), vkit.Q(string(wb))), in)
		return
	}
	c.Count("documents_with_a_member_named_dollar", 1)
	c.Case(vkit.Hash("dollar", string(doc), path, kind), true)
}

func pickPath(r *rand.Rand, d *vkit.JNode, ok func(vkit.JPath) bool) (vkit.JPath, bool) {
	var ps []vkit.JPath
	for _, p := range d.Paths() {
		if ok(p) {
			ps = append(ps, p)
		}
	}
	if len(ps) == 0 {
		return vkit.JPath{}, false
	}
	return ps[r.IntN(len(ps))], true
}

func rawLen(n *vkit.JNode) int { return len(n.Render(nil, false)) }

// c15JSONMultiPath: one matcher with 2-4 paths (Any / Type accept several): every
// listed path must be replaced, exactly as the same paths given to separate matchers.
func c15JSONMultiPath(c *vkit.Ctx, r *rand.Rand, i int) {
	d := vkit.JSONObjectDoc(r, 4, 2, vkit.Classes{})
	var used []vkit.JPath
	var paths []string
	ph, phk := drawPlaceholder(r)
	exp := d.Clone()
	wantTree, _ := vkit.FromGo(ph)
	for k := 0; k < 2+r.IntN(3); k++ {
		p, ok := pickPath(r, d, func(p vkit.JPath) bool {
			if !gjsonAddressable(p) {
				return false
			}
			for _, q := range used {
				if prefixRelated(p, q) {
					return false
				}
			}
			return true
		})
		if !ok {
			break
		}
		used = append(used, p)
		paths = append(paths, p.GJSON())
		exp.Set(p, wantTree.Clone())
	}
	if len(paths) < 2 {
		return
	}
	text := d.Render(r, false)
	in := map[string]any{"sub": "json-direct-multi-path", "document": vkit.Clip(text, 3000), "paths": paths, "placeholder": ph}
	mbuf := []byte(text)
	out, errs := match.Any(paths...).Placeholder(ph).JSON(mbuf)
	c.Count("json_multipath_applications", 1)
	if string(mbuf) != text {
		c.Violate("caller-bytes-modified", "", fmt.Sprintf("Any(%v).JSON(b) changed b itself", paths), in)
		return
	}
	if len(errs) > 0 {
		c.Count("json_direct_matcher_reported_error", 1)
		return
	}
	got, err := vkit.ParseJSON(string(out))
	if err != nil {
		c.Violate("matcher-output-invalid-json", "", err.Error(), in)
		return
	}
	if diff := exp.Equal(got, true); diff != "" {
		c.Violate("multi-path-matcher-skipped-a-path", "", fmt.Sprintf("Any(%v) placeholder %s: differs from the model at %s; output %s", paths, phk, diff, vkit.Q(string(out))), in)
		return
	}
	c.Count("placeholder:"+phk, 1)
	c.Case(vkit.Hash("jm", text, fmt.Sprint(paths), phk), true)
}

// c15JSONOverlap: one Any/Type matcher whose path list overlaps itself (parent before
// child, child before parent, the same path twice). "Matchers take effect left to
// right": the k-th path is looked up in the document as the first k-1 replacements left
// it, so the matcher must agree - output tree and set of paths it reported - with the
// same paths handed one by one to single-path matchers, each fed the previous output.
func c15JSONOverlap(c *vkit.Ctx, r *rand.Rand, i int) {
	d := vkit.JSONObjectDoc(r, 4, 2, vkit.Classes{})
	var all []vkit.JPath
	for _, p := range d.Paths() {
		if gjsonAddressable(p) {
			all = append(all, p)
		}
	}
	if len(all) == 0 {
		return
	}
	var deep []vkit.JPath
	for _, p := range all {
		if len(p.Steps) >= 2 {
			deep = append(deep, p)
		}
	}
	var ps []vkit.JPath
	shape := "same-path-twice"
	switch x := r.IntN(4); {
	case x < 2 && len(deep) > 0:
		ch := deep[r.IntN(len(deep))]
		par := vkit.JPath{Steps: ch.Steps[:1+r.IntN(len(ch.Steps)-1)]}
		if x == 0 {
			ps, shape = []vkit.JPath{par, ch}, "parent-before-child"
		} else {
			ps, shape = []vkit.JPath{ch, par}, "child-before-parent"
		}
	default:
		p := all[r.IntN(len(all))]
		ps = []vkit.JPath{p, p}
	}
	if r.IntN(3) == 0 {
		ps = append(ps, all[r.IntN(len(all))])
	}
	var paths []string
	for _, p := range ps {
		paths = append(paths, p.GJSON())
	}
	kind := "any"
	ph, phk := drawPlaceholder(r)
	mk := func(ps ...string) match.JSONMatcher { return match.Any(ps...).Placeholder(ph) }
	if r.IntN(5) == 0 {
		// Type instantiated with an interface type: every value passes and each gets the
		// placeholder of its own dynamic type
		kind = "type-any"
		mk = func(ps ...string) match.JSONMatcher { return match.Type[any](ps...) }
		if r.IntN(2) == 0 {
			// ... over unrelated paths of different kinds
			var mixed []string
			seen := map[string]bool{}
			for _, p := range all {
				k := d.At(p).Kind
				if !seen[k] && k != "null" {
					seen[k] = true
					mixed = append(mixed, p.GJSON())
				}
			}
			if len(mixed) >= 2 {
				paths, shape = mixed, "unrelated-paths-of-different-kinds"
			}
		}
	} else if r.IntN(2) == 0 {
		// Type of the first path's value: the second visit of a path sees the placeholder string
		kind = "type"
		switch d.At(ps[0]).Kind {
		case "str":
			mk = func(ps ...string) match.JSONMatcher { return match.Type[string](ps...) }
		case "num":
			mk = func(ps ...string) match.JSONMatcher { return match.Type[float64](ps...) }
		case "bool":
			mk = func(ps ...string) match.JSONMatcher { return match.Type[bool](ps...) }
		case "obj":
			mk = func(ps ...string) match.JSONMatcher { return match.Type[map[string]any](ps...) }
		case "arr":
			mk = func(ps ...string) match.JSONMatcher { return match.Type[[]any](ps...) }
		default:
			kind = "any"
		}
	}
	text := d.Render(r, false)
	in := map[string]any{"sub": "json-direct-overlapping-paths", "document": vkit.Clip(text, 3000), "paths": paths, "matcher": kind, "placeholder": ph, "shape": shape}
	obuf := []byte(text)
	out, errs := mk(paths...).JSON(obuf)
	c.Count("json_overlapping_paths_applications", 1)
	if string(obuf) != text {
		c.Violate("caller-bytes-modified", "", fmt.Sprintf("%s(%v).JSON(b) changed b itself", kind, paths), in)
		return
	}
	c.Count("overlap:"+shape, 1)
	seq := []byte(text)
	var seqErr []string
	for _, p := range paths {
		o, es := mk(p).JSON(append([]byte{}, seq...))
		for _, e := range es {
			seqErr = append(seqErr, e.Path)
		}
		if o != nil {
			seq = o
		}
	}
	var gotErr []string
	for _, e := range errs {
		gotErr = append(gotErr, e.Path)
	}
	if fmt.Sprint(gotErr) != fmt.Sprint(seqErr) {
		c.Violate("multi-path-matcher-not-left-to-right", "", fmt.Sprintf("%s(%v) [%s]: reported paths %v, the same paths applied one after the other report %v; output %s", kind, paths, shape, gotErr, seqErr, vkit.Q(vkit.Clip(string(out), 600))), in)
		return
	}
	got, err := vkit.ParseJSON(string(out))
	if err != nil {
		c.Violate("matcher-output-invalid-json", "", err.Error(), in)
		return
	}
	want, err := vkit.ParseJSON(string(seq))
	if err != nil {
		c.Violate("matcher-output-invalid-json", "", err.Error(), in)
		return
	}
	if diff := want.Equal(got, true); diff != "" {
		c.Violate("multi-path-matcher-not-left-to-right", "", fmt.Sprintf("%s(%v) [%s] placeholder %s: differs at %s from the same paths applied one after the other; output %s, one by one %s", kind, paths, shape, phk, diff, vkit.Q(vkit.Clip(string(out), 600)), vkit.Q(vkit.Clip(string(seq), 600))), in)
		return
	}
	if len(gotErr) > 0 {
		c.Count("overlap_later_path_reported", 1)
	}
	c.Case(vkit.Hash("jo", text, kind, fmt.Sprint(paths), phk), true)
}

// c15Reconfigured: a matcher value that is applied, re-configured through its own methods
// (Placeholder, ErrOnMissingPath) and applied again - a package-level `var volatile =
// match.Any(...)` used as it is in one test and as volatile.Placeholder("<id>") in another.
// Every application must behave like a freshly built matcher with the current settings.
func c15Reconfigured(c *vkit.Ctx, r *rand.Rand, i int, yaml bool) {
	var d *vkit.JNode
	var text string
	var usable func(vkit.JPath) bool
	if yaml {
		d = vkit.YAMLTreeDoc(r, 3)
		text = vkit.YAMLFromTree(d)
		if docs, err := vkit.ParseYAMLDocs(text); err != nil || len(docs) != 1 || d.Equal(docs[0], true) != "" {
			c.Count("premise_yaml_emitter_roundtrip_failed", 1)
			return
		}
		usable = func(vkit.JPath) bool { return true }
	} else {
		d = vkit.JSONObjectDoc(r, 3, 1, vkit.Classes{})
		text = d.Render(r, false)
		usable = gjsonAddressable
	}
	p, ok := pickPath(r, d, usable)
	if !ok {
		return
	}
	ps := p.GJSON()
	if yaml {
		ps = p.YAMLPath()
	}
	missing := "zz_missing.member"
	if yaml {
		missing = "$.zz_missing.member"
	}
	apply := func(m interface {
		JSON([]byte) ([]byte, []match.MatcherError)
		YAML([]byte) ([]byte, []match.MatcherError)
	}) (string, int, bool) {
		var out []byte
		var errs []match.MatcherError
		okc := true
		func() {
			defer func() {
				if rec := recover(); rec != nil {
					okc = false
				}
			}()
			if yaml {
				out, errs = m.YAML([]byte(text))
			} else {
				out, errs = m.JSON([]byte(text))
			}
		}()
		return string(out), len(errs), okc
	}
	reused := match.Any(ps, missing)
	var steps []string
	for k := 0; k < 2+r.IntN(3); k++ {
		ph, phk := drawPlaceholder(r)
		if yaml && yamlPHClass(ph, 1) != "" {
			ph, phk = "<plain>", "string-short"
		}
		lenient := r.IntN(2) == 0
		if r.IntN(4) > 0 {
			reused.Placeholder(ph)
		} else {
			ph, phk = nil, "unchanged"
		}
		reused.ErrOnMissingPath(!lenient)
		steps = append(steps, fmt.Sprintf("Placeholder(%s) ErrOnMissingPath(%v)", phk, !lenient))
		got, gotErrs, ok1 := apply(reused)
		// the same settings on a matcher built for this application only
		fresh := match.Any(ps, missing).ErrOnMissingPath(!lenient)
		if phk != "unchanged" {
			fresh.Placeholder(ph)
		} else if lastPH != nil {
			fresh.Placeholder(lastPH.v)
		}
		if phk != "unchanged" {
			lastPH = &phBox{ph}
		}
		want, wantErrs, ok2 := apply(fresh)
		c.Count("reconfigured_matcher_applications", 1)
		if !ok1 || !ok2 {
			continue
		}
		if got != want || gotErrs != wantErrs {
			in := map[string]any{"sub": "reconfigured-matcher", "yaml": yaml, "document": vkit.Clip(text, 2000), "path": ps, "steps": steps}
			c.Violate("reused-matcher-ignores-its-current-settings", "", fmt.Sprintf("Any(%q, %q) after %v: output %s (%d errors), a matcher built with the same settings gives %s (%d errors)", ps, missing, steps, vkit.Q(vkit.Clip(got, 500)), gotErrs, vkit.Q(vkit.Clip(want, 500)), wantErrs), in)
			return
		}
	}
	lastPH = nil
	c.Case(vkit.Hash("rc", text, ps, fmt.Sprint(steps), yaml), true)
}

type phBox struct{ v any }

var lastPH *phBox

func c15JSONDirect(c *vkit.Ctx, r *rand.Rand, i int) {
	if i%12 == 0 {
		c15JSONMultiPath(c, r, i)
		return
	}
	if i%12 == 4 {
		c15JSONOverlap(c, r, i)
		return
	}
	if i%24 == 8 {
		lastPH = nil
		c15Reconfigured(c, r, i, false)
		return
	}
	if i%24 == 20 {
		lastPH = nil
		c15Reconfigured(c, r, i, true)
		return
	}
	cl := vkit.Classes{}
	d := vkit.JSONObjectDoc(r, 4, 1, cl)
	p, ok := pickPath(r, d, gjsonAddressable)
	if !ok {
		return
	}
	target := d.At(p)
	ph, phk := drawPlaceholder(r)
	if r.IntN(10) == 0 {
		// a string that reads like the value it replaces
		switch target.Kind {
		case "num", "bool", "str":
			ph, phk = target.S, "string-equal-to-text-of-replaced-value"
		case "null":
			ph, phk = "", "string-equal-to-text-of-replaced-value"
		}
	}
	spec := mSpec{Kind: pick2(r, "any", "any", "type", "custom"), Path: p, PathS: p.GJSON(), PH: ph, PHKind: phk}
	m, want, ok := buildJSONMatcher(spec, target)
	if !ok {
		return
	}
	text := d.Render(r, false)
	in := map[string]any{"sub": "json-direct", "document": vkit.Clip(text, 3000), "matcher": spec}
	buf := []byte(text)
	out, errs := m.JSON(buf)
	c.Count("json_direct_applications", 1)
	if string(buf) != text {
		c.Violate("caller-bytes-modified", "", fmt.Sprintf("%s(%q).JSON(b) changed b itself: %s -> %s", spec.Kind, spec.PathS, vkit.Q(vkit.Clip(text, 300)), vkit.Q(vkit.Clip(string(buf), 300))), in)
		return
	}
	if len(errs) > 0 {
		c.Count("json_direct_matcher_reported_error", 1)
		c.Note(fmt.Sprintf("matcher error on existing path (allowed): %s %q: %v", spec.Kind, spec.PathS, errs[0].Reason))
		return
	}
	wantTree, err := vkit.FromGo(want)
	if err != nil {
		panic(err)
	}
	exp := d.Clone()
	if !exp.Set(p, wantTree) {
		panic("harness: model could not set path")
	}
	if !json.Valid(out) {
		c.Violate("matcher-output-invalid-json", "", fmt.Sprintf("%s(%q) placeholder %s: output %s", spec.Kind, spec.PathS, phk, vkit.Q(string(out))), in)
		return
	}
	got, err := vkit.ParseJSON(string(out))
	if err != nil {
		c.Violate("matcher-output-invalid-json", "", err.Error(), in)
		return
	}
	if diff := exp.Equal(got, true); diff != "" {
		c.Violate("matcher-changed-other-than-target", "", fmt.Sprintf("%s(%q) placeholder %s: differs from set(input, path, placeholder) at %s; output %s", spec.Kind, spec.PathS, phk, diff, vkit.Q(string(out))), in)
		return
	}
	nt := rawLen(target) != rawLen(wantTree) || spec.PathS != plainPath(p)
	c.Count("placeholder:"+phk, 1)
	c.Count("matcher:"+spec.Kind, 1)
	c.Case(vkit.Hash("jd", text, spec.Kind, spec.PathS, phk), nt)
	if i%1201 == 0 {
		c.Sample(in)
	}
}

func plainPath(p vkit.JPath) string {
	parts := make([]string, len(p.Steps))
	for i, s := range p.Steps {
		if s.IsIdx {
			parts[i] = fmt.Sprint(s.Index)
		} else {
			parts[i] = s.Key
		}
	}
	return strings.Join(parts, ".")
}

// carve places doc in the middle of a larger buffer with guard regions.
func carve(doc string) (whole []byte, slice []byte, lo, hi int) {
	guard := "0123456789ABCDEFGHIJ"
	whole = []byte(guard + doc + guard + strings.Repeat("Z", 64))
	lo, hi = len(guard), len(guard)+len(doc)
	return whole, whole[lo:hi:hi], lo, hi
}

func c15JSONSnaps(c *vkit.Ctx, r *rand.Rand, i int) {
	cl := vkit.Classes{}
	d := vkit.JSONObjectDoc(r, 3, 1, cl)
	model := d.Clone()
	var ms []match.JSONMatcher
	var specs []mSpec
	nm := 1 + r.IntN(3)
	for k := 0; k < nm; k++ {
		p, ok := pickPath(r, model, gjsonAddressable)
		if !ok {
			break
		}
		target := model.At(p)
		ph, phk := drawPlaceholder(r)
		spec := mSpec{Kind: pick2(r, "any", "any", "type", "custom"), Path: p, PathS: p.GJSON(), PH: ph, PHKind: phk}
		m, want, ok := buildJSONMatcher(spec, target)
		if !ok {
			continue
		}
		wt, _ := vkit.FromGo(want)
		model.Set(p, wt)
		ms = append(ms, m)
		specs = append(specs, spec)
	}
	if len(ms) == 0 {
		return
	}
	text := d.Render(r, false)
	api := pick2(r, "json", "json", "sjson")
	in := map[string]any{"sub": "json-through-snaps", "api": api, "document": vkit.Clip(text, 3000), "matchers": specs}
	whole, input, lo, hi := carve(text)
	before := append([]byte(nil), whole...)
	// in one case of six the first matcher is an identity Custom whose callback re-uses the
	// caller's buffer for something else (a pooled encoder buffer): the call must go on
	// working on the document it was handed at entry
	scribbled := false
	if r.IntN(6) == 0 {
		if sp, ok := pickPath(r, d, func(p vkit.JPath) bool {
			k := d.At(p).Kind
			return gjsonAddressable(p) && (k == "str" || k == "bool")
		}); ok {
			ms = append([]match.JSONMatcher{match.Custom(sp.GJSON(), func(v any) (any, error) {
				for x := lo; x < hi; x++ {
					whole[x] = '#'
				}
				return v, nil
			})}, ms...)
			scribbled = true
			in["callback_overwrites_the_callers_buffer"] = true
			c.Count("json_snaps_calls_whose_callback_reuses_the_callers_buffer", 1)
		}
	}
	root := vkit.MkScratch("c15")
	defer os.RemoveAll(root)
	snaps.VerifSetMode(false, "")
	snaps.VerifSetNoColor(true)
	snaps.VerifResetProcessState()
	t := vkit.NewT("TestM")
	cfg := snaps.WithConfig(snaps.Dir(root), snaps.Filename("m"))
	var stored string
	if scribbled {
		copy(before, whole) // the harness itself changes the buffer in this variant
		for x := lo; x < hi; x++ {
			before[x] = '#'
		}
	}
	if api == "json" {
		cfg.MatchJSON(t, input, ms...)
		ents, _ := vkit.ReadSnapFile(filepath.Join(root, "m.snap"))
		if len(ents) == 1 {
			stored = ents[0].Body
		}
	} else {
		cfg.MatchStandaloneJSON(t, input, ms...)
		b, _ := os.ReadFile(filepath.Join(root, "m_1.snap.json"))
		stored = string(b)
	}
	sig := t.Take()
	t.Finish()
	c.Count("json_snaps_calls", 1)
	if !bytes.Equal(before, whole) {
		where := "caller's document bytes"
		if bytes.Equal(before[lo:hi], whole[lo:hi]) {
			where = "guard region outside the slice"
		}
		c.Violate("caller-bytes-modified", "json-caller-slice-edited-in-place", fmt.Sprintf("%s with []byte input and %d matcher(s): %s changed: before %s after %s", api, len(ms), where, vkit.Q(string(before[lo:hi])), vkit.Q(string(whole[lo:hi]))), in)
		return
	}
	if out := vkit.Classify(sig); out != vkit.Added {
		c.Count("json_snaps_not_added", 1)
		c.Note("matchers through snaps did not record (allowed: error reported): " + firstErr(sig))
		return
	}
	got, err := vkit.ParseJSON(stored)
	if err != nil {
		c.Violate("stored-text-not-json", "", err.Error()+": "+vkit.Q(stored), in)
		return
	}
	if diff := model.Equal(got, false); diff != "" {
		c.Violate("matchers-not-left-to-right", "", fmt.Sprintf("stored snapshot differs from the left-to-right model at %s; stored %s", diff, vkit.Q(stored)), in)
		return
	}
	c.Count("canary_checks", 1)
	c.Case(vkit.Hash("js", text, fmt.Sprint(specs), api), len(ms) >= 2 || true)
	if i%1201 == 1 {
		c.Sample(in)
	}
}

// c15YAMLMultiPath: one Any matcher with 2-3 YAML paths at different depths and one
// placeholder (scalar, map or slice): every listed path must be replaced.
func c15YAMLMultiPath(c *vkit.Ctx, r *rand.Rand, i int) {
	d := vkit.YAMLTreeDoc(r, 4)
	text := vkit.YAMLFromTree(d)
	docs, err := vkit.ParseYAMLDocs(text)
	if err != nil || len(docs) != 1 || d.Equal(docs[0], true) != "" {
		c.Count("premise_yaml_emitter_roundtrip_failed", 1)
		return
	}
	var used []vkit.JPath
	var paths []string
	ph, phk := drawPlaceholder(r)
	wantTree, _ := vkit.FromGo(ph)
	exp := d.Clone()
	for k := 0; k < 2+r.IntN(2); k++ {
		p, ok := pickPath(r, d, func(p vkit.JPath) bool {
			for _, q := range used {
				if prefixRelated(p, q) {
					return false
				}
			}
			return true
		})
		if !ok {
			break
		}
		used = append(used, p)
		paths = append(paths, p.YAMLPath())
		exp.Set(p, wantTree.Clone())
	}
	if len(paths) < 2 {
		return
	}
	in := map[string]any{"sub": "yaml-direct-multi-path", "document": text, "paths": paths, "placeholder": ph}
	maxDepth := 0
	for _, p := range used {
		maxDepth = max(maxDepth, len(p.Steps))
	}
	class := yamlPHClass(ph, maxDepth)
	out, errs, ok := yamlApply(c, class, in, func() ([]byte, []match.MatcherError) { return match.Any(paths...).Placeholder(ph).YAML([]byte(text)) })
	if !ok {
		return
	}
	c.Count("yaml_multipath_applications", 1)
	if len(errs) > 0 {
		c.Count("yaml_direct_matcher_reported_error", 1)
		return
	}
	gd, err := vkit.ParseYAMLDocs(string(out))
	if err != nil || len(gd) != 1 {
		c.Violate("matcher-output-invalid-yaml", class, fmt.Sprintf("Any(%v) placeholder %s: output does not decode to one document (%v): %s", paths, phk, err, vkit.Q(string(out))), in)
		return
	}
	if diff := exp.Equal(gd[0], true); diff != "" {
		c.Violate("multi-path-matcher-changed-other-than-targets", class, fmt.Sprintf("YAML Any(%v) placeholder %s: differs from the model at %s; output %s", paths, phk, diff, vkit.Q(string(out))), in)
		return
	}
	c.Count("yaml_placeholder:"+phk, 1)
	c.Case(vkit.Hash("ym", text, fmt.Sprint(paths), phk), true)
}

// c15YAMLOverlap: the YAML counterpart of c15JSONOverlap (Any only; the paths overlap).
func c15YAMLOverlap(c *vkit.Ctx, r *rand.Rand, i int) {
	d := vkit.YAMLTreeDoc(r, 4)
	text := vkit.YAMLFromTree(d)
	docs, err := vkit.ParseYAMLDocs(text)
	if err != nil || len(docs) != 1 || d.Equal(docs[0], true) != "" {
		c.Count("premise_yaml_emitter_roundtrip_failed", 1)
		return
	}
	all := d.Paths()
	var deep []vkit.JPath
	for _, p := range all {
		if len(p.Steps) >= 2 {
			deep = append(deep, p)
		}
	}
	if len(all) == 0 {
		return
	}
	var ps []vkit.JPath
	shape := "same-path-twice"
	switch x := r.IntN(4); {
	case x < 2 && len(deep) > 0:
		ch := deep[r.IntN(len(deep))]
		par := vkit.JPath{Steps: ch.Steps[:1+r.IntN(len(ch.Steps)-1)]}
		if x == 0 {
			ps, shape = []vkit.JPath{par, ch}, "parent-before-child"
		} else {
			ps, shape = []vkit.JPath{ch, par}, "child-before-parent"
		}
	default:
		p := all[r.IntN(len(all))]
		ps = []vkit.JPath{p, p}
	}
	var paths []string
	for _, p := range ps {
		paths = append(paths, p.YAMLPath())
	}
	ph, phk := drawPlaceholder(r)
	in := map[string]any{"sub": "yaml-direct-overlapping-paths", "document": text, "paths": paths, "placeholder": ph, "shape": shape}
	maxDepth := 0
	for _, p := range ps {
		maxDepth = max(maxDepth, len(p.Steps))
	}
	class := yamlPHClass(ph, maxDepth)
	out, errs, ok := yamlApply(c, class, in, func() ([]byte, []match.MatcherError) { return match.Any(paths...).Placeholder(ph).YAML([]byte(text)) })
	if !ok {
		return
	}
	c.Count("yaml_overlapping_paths_applications", 1)
	c.Count("yaml_overlap:"+shape, 1)
	seq := []byte(text)
	var seqErr, gotErr []string
	for _, p := range paths {
		o, es, ok := yamlApply(c, class, in, func() ([]byte, []match.MatcherError) {
			return match.Any(p).Placeholder(ph).YAML(append([]byte{}, seq...))
		})
		if !ok {
			return
		}
		for _, e := range es {
			seqErr = append(seqErr, e.Path)
		}
		if o != nil {
			seq = o
		}
	}
	for _, e := range errs {
		gotErr = append(gotErr, e.Path)
	}
	if fmt.Sprint(gotErr) != fmt.Sprint(seqErr) {
		c.Violate("multi-path-matcher-not-left-to-right", class, fmt.Sprintf("YAML Any(%v) [%s]: reported paths %v, the same paths applied one after the other report %v; output %s", paths, shape, gotErr, seqErr, vkit.Q(vkit.Clip(string(out), 600))), in)
		return
	}
	gd, err := vkit.ParseYAMLDocs(string(out))
	wd, err2 := vkit.ParseYAMLDocs(string(seq))
	if err != nil || err2 != nil || len(gd) != 1 || len(wd) != 1 {
		if (err != nil || len(gd) != 1) && len(gotErr) == 0 {
			c.Violate("matcher-output-invalid-yaml", class, fmt.Sprintf("YAML Any(%v) placeholder %s: output does not decode to one document (%v): %s", paths, phk, err, vkit.Q(string(out))), in)
		}
		return
	}
	if diff := wd[0].Equal(gd[0], true); diff != "" {
		c.Violate("multi-path-matcher-not-left-to-right", class, fmt.Sprintf("YAML Any(%v) [%s] placeholder %s: differs at %s from the same paths applied one after the other; output %s, one by one %s", paths, shape, phk, diff, vkit.Q(vkit.Clip(string(out), 600)), vkit.Q(vkit.Clip(string(seq), 600))), in)
		return
	}
	c.Case(vkit.Hash("yo", text, fmt.Sprint(paths), phk), true)
}

// c15YAMLNonFinite: floats that YAML writes as .inf / -.inf / .nan as placeholders (JSON
// cannot encode them, so this is YAML only and outside the tree model): the value at the
// path must decode to that float, every other top-level member must keep its value.
func c15YAMLNonFinite(c *vkit.Ctx, r *rand.Rand, i int) {
	d := vkit.YAMLTreeDoc(r, 2)
	text := vkit.YAMLFromTree(d)
	if docs, err := vkit.ParseYAMLDocs(text); err != nil || len(docs) != 1 || d.Equal(docs[0], true) != "" {
		return
	}
	key := d.Keys[r.IntN(len(d.Keys))]
	ph := []float64{math.Inf(1), math.Inf(-1), math.NaN()}[r.IntN(3)]
	in := map[string]any{"sub": "yaml-non-finite-placeholder", "document": text, "path": "$." + key, "placeholder": fmt.Sprint(ph)}
	out, errs, ok := yamlApply(c, "", in, func() ([]byte, []match.MatcherError) { return match.Any("$." + key).Placeholder(ph).YAML([]byte(text)) })
	c.Count("yaml_non_finite_placeholder_applications", 1)
	if !ok || len(errs) > 0 {
		return
	}
	var got map[string]any
	if err := goyaml.Unmarshal(out, &got); err != nil {
		c.Violate("matcher-output-invalid-yaml", "", fmt.Sprintf("Any(%q).Placeholder(%v): %v: %s", "$."+key, ph, err, vkit.Q(string(out))), in)
		return
	}
	f, isF := got[key].(float64)
	if !isF || !(f == ph || (math.IsNaN(f) && math.IsNaN(ph))) {
		c.Violate("matcher-changed-other-than-target", "", fmt.Sprintf("Any(%q).Placeholder(%v): the member decodes to %#v; output %s", "$."+key, ph, got[key], vkit.Q(string(out))), in)
		return
	}
	c.Case(vkit.Hash("ynf", text, key, fmt.Sprint(ph)), true)
}

func c15YAMLDirect(c *vkit.Ctx, r *rand.Rand, i int) {
	if i%12 == 6 {
		c15YAMLOverlap(c, r, i)
		return
	}
	if i%40 == 10 {
		c15YAMLNonFinite(c, r, i)
		return
	}
	if i%12 == 2 {
		c15YAMLMultiPath(c, r, i)
		return
	}
	d := vkit.YAMLTreeDoc(r, 3)
	text := vkit.YAMLFromTree(d)
	var style *vkit.YAMLStyle
	if r.IntN(2) == 0 {
		text, style = vkit.YAMLFromTreeStyled(r, d)
		c.Count("yaml_documents_with_comments_flow_collections_quoted_keys", 1)
	}
	if r.IntN(3) == 0 {
		text = "# leading comment\n" + text
	}
	if r.IntN(4) == 0 {
		text = strings.TrimSuffix(text, "\n")
	}
	docs, err := vkit.ParseYAMLDocs(text)
	if err != nil || len(docs) != 1 || d.Equal(docs[0], true) != "" {
		c.Count("premise_yaml_emitter_roundtrip_failed", 1)
		return
	}
	// multi-document stream: a second (and third) document with disjoint keys follows; the
	// matcher's path exists only in the first one, the others must come out unchanged
	var tail []*vkit.JNode
	if r.IntN(4) == 0 {
		for k := 0; k < 1+r.IntN(2); k++ {
			t := vkit.YAMLTreeDoc(r, 2)
			for i := range t.Keys {
				t.Keys[i] = fmt.Sprintf("z%d_%s", k, t.Keys[i])
			}
			tail = append(tail, t)
			if !strings.HasSuffix(text, "\n") {
				text += "\n"
			}
			text += "---\n" + vkit.YAMLFromTree(t)
		}
		if all, err := vkit.ParseYAMLDocs(text); err != nil || len(all) != 1+len(tail) {
			c.Count("premise_yaml_emitter_roundtrip_failed", 1)
			return
		}
	}
	p, ok := pickPath(r, d, func(vkit.JPath) bool { return true })
	if !ok {
		return
	}
	target := d.At(p)
	ph, phk := drawPlaceholder(r)
	spec := mSpec{Kind: pick2(r, "any", "any", "type", "custom"), Path: p, PathS: p.YAMLPath(), PH: ph, PHKind: phk}
	m, want, ok := buildYAMLMatcher(spec, target)
	if !ok {
		return
	}
	in := map[string]any{"sub": "yaml-direct", "document": text, "matcher": spec}
	class := ""
	if style != nil {
		class = yamlStyleClass(style, p, spec.Kind, want)
	}
	if class == "" && spec.Kind != "type" {
		class = yamlPHClass(want, len(p.Steps))
	}
	out, errs, ok := yamlApply(c, class, in, func() ([]byte, []match.MatcherError) { return m.YAML([]byte(text)) })
	if !ok {
		return
	}
	c.Count("yaml_direct_applications", 1)
	if len(errs) > 0 {
		c.Count("yaml_direct_matcher_reported_error", 1)
		return
	}
	wantTree, _ := vkit.FromGo(want)
	exp := d.Clone()
	exp.Set(p, wantTree)
	gd, err := vkit.ParseYAMLDocs(string(out))
	if err != nil || len(gd) != 1+len(tail) {
		c.Violate("matcher-output-invalid-yaml", class, fmt.Sprintf("%s(%q) placeholder %s: output does not decode to %d document(s) (%v, got %d): %s", spec.Kind, spec.PathS, phk, 1+len(tail), err, len(gd), vkit.Q(string(out))), in)
		return
	}
	for k, t := range tail {
		if diff := t.Equal(gd[1+k], true); diff != "" {
			c.Violate("matcher-changed-another-document", class, fmt.Sprintf("document %d of the stream changed at %s; output %s", 2+k, diff, vkit.Q(string(out))), in)
			return
		}
		c.Count("yaml_multidoc_tail_documents_checked", 1)
	}
	if diff := exp.Equal(gd[0], true); diff != "" {
		c.Violate("matcher-changed-other-than-target", class, fmt.Sprintf("YAML %s(%q) placeholder %s: differs from set(input, path, placeholder) at %s; output %s", spec.Kind, spec.PathS, phk, diff, vkit.Q(string(out))), in)
		return
	}
	if strings.HasSuffix(text, "\n") != strings.HasSuffix(string(out), "\n") {
		c.Violate("final-newline-changed", class, fmt.Sprintf("input ends with newline=%v, output=%v", strings.HasSuffix(text, "\n"), strings.HasSuffix(string(out), "\n")), in)
		return
	}
	c.Count("yaml_placeholder:"+phk, 1)
	c.Case(vkit.Hash("yd", text, spec.Kind, spec.PathS, phk), true)
	if i%1201 == 2 {
		c.Sample(in)
	}
}

func c15YAMLSnaps(c *vkit.Ctx, r *rand.Rand, i int) {
	d := vkit.YAMLTreeDoc(r, 3)
	text := vkit.YAMLFromTree(d)
	p, ok := pickPath(r, d, func(vkit.JPath) bool { return true })
	if !ok {
		return
	}
	ph, phk := drawPlaceholder(r)
	for !scalarPH(phk) {
		ph, phk = drawPlaceholder(r)
	}
	spec := mSpec{Kind: "any", Path: p, PathS: p.YAMLPath(), PH: ph, PHKind: phk}
	in := map[string]any{"sub": "yaml-through-snaps", "document": text, "matcher": spec}
	whole, input, lo, hi := carve(text)
	before := append([]byte(nil), whole...)
	root := vkit.MkScratch("c15y")
	defer os.RemoveAll(root)
	snaps.VerifSetMode(false, "")
	snaps.VerifResetProcessState()
	t := vkit.NewT("TestY")
	snaps.WithConfig(snaps.Dir(root), snaps.Filename("y")).MatchYAML(t, input, match.Any(spec.PathS).Placeholder(ph))
	t.Finish()
	c.Count("yaml_snaps_calls", 1)
	if !bytes.Equal(before, whole) {
		c.Violate("caller-bytes-modified", "", fmt.Sprintf("MatchYAML changed the caller's buffer: %s -> %s", vkit.Q(string(before[lo:hi])), vkit.Q(string(whole[lo:hi]))), in)
		return
	}
	c.Count("canary_checks", 1)
	c.Case(vkit.Hash("ys", text, spec.PathS, phk), true)
}
