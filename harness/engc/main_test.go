package engc

import (
	"flag"
	"fmt"
	"os"
	"testing"

	"verifharness/vkit"
)

var checks = map[string]func(*vkit.Ctx){}

func register(id string, f func(*vkit.Ctx)) { checks[id] = f }

func TestMain(m *testing.M) {
	flag.Parse()
	prop := os.Getenv("VERIF_PROP")
	if prop == "" {
		os.Exit(m.Run())
	}
	f, ok := checks[prop]
	if !ok {
		fmt.Fprintln(os.Stderr, "engc: no check for", prop)
		os.Exit(3)
	}
	ctx := vkit.NewCtxFromEnv("C")
	f(ctx)
	ctx.Finish()
	os.Exit(0)
}
