//go:build verif

// Package engc is engine C: the schedule engine. The `snaps` package is built
// from an AST-instrumented overlay copy of the current sources (cmd/instrument),
// so that every file-system and lock operation is a yield point. In token mode
// exactly one task goroutine runs between two points and a controller decides who
// goes next (recorded, replayable grant lists); in free mode the same points
// inject seeded random delays and the race detector watches.
package engc

import (
	"bytes"
	"fmt"
	"math/rand/v2"
	"runtime"
	"strconv"
	"strings"
	"sync"
	"time"
	"unsafe"

	"github.com/gkampitakis/go-snaps/snaps"
)

func gid() int64 {
	var buf [64]byte
	n := runtime.Stack(buf[:], false)
	// "goroutine 123 ["
	b := buf[len("goroutine "):n]
	i := bytes.IndexByte(b, ' ')
	id, _ := strconv.ParseInt(string(b[:i]), 10, 64)
	return id
}

type status int

const (
	stReady status = iota
	stLockWait
	stDone
)

type parkInfo struct {
	st   status
	site string
}

type task struct {
	id     int
	grant  chan struct{}
	park   chan parkInfo
	st     status
	site   string
	steps  int
	seenRW map[string]bool
}

// Grant is one scheduling decision.
type Grant struct {
	Task int    `json:"t"`
	Site string `json:"s"`
}

// Sched is the token scheduler.
type Sched struct {
	mu      sync.Mutex
	tasks   []*task
	byGID   map[int64]*task
	Grants  []Grant
	Sites   map[string]int
	Dead    bool
	Stalled string
	// pendingW counts, per mutex (receiver text of the call site), the tasks that have
	// asked for the write lock and do not hold it yet. sync.RWMutex lets a blocked Lock
	// exclude new readers; trying RLock while a writer is pending would hide exactly the
	// deadlocks that rule produces (a read lock taken twice by one goroutine).
	pendingW map[string]int
}

// Strategy picks the next task among the runnable ones.
type Strategy func(step int, runnable []int, s *Sched) int

func NewSched() *Sched {
	return &Sched{byGID: map[int64]*task{}, Sites: map[string]int{}, pendingW: map[string]int{}}
}

// boundReceiver returns the receiver a method value such as mu.Lock is bound to: a func
// value points to a closure record whose first word is the code pointer and, for a bound
// method, whose second word is the receiver (gc toolchain layout; 0 when it does not look
// like one, which only makes the model coarser).
func boundReceiver(f func()) uintptr {
	if f == nil {
		return 0
	}
	rec := *(*unsafe.Pointer)(unsafe.Pointer(&f))
	if rec == nil {
		return 0
	}
	return (*[2]uintptr)(rec)[1]
}

// lockSite splits an instrumented lock site ("snapshot.go:222 _m.RLock") into the mutex
// expression and whether the write lock is requested.
func lockSite(site string) (mutex string, write bool) {
	call := site[strings.LastIndexByte(site, ' ')+1:]
	i := strings.LastIndexByte(call, '.')
	if i < 0 {
		return call, true
	}
	return call[:i], call[i+1:] != "RLock"
}

func (s *Sched) cur() *task {
	s.mu.Lock()
	t := s.byGID[gid()]
	s.mu.Unlock()
	return t
}

func (s *Sched) parkHere(t *task, st status, site string) {
	t.park <- parkInfo{st, site}
	<-t.grant
}

// Install routes the instrumentation points of package snaps to this scheduler.
func (s *Sched) Install() {
	snaps.VerifPointHandler = func(site string) {
		if t := s.cur(); t != nil {
			s.parkHere(t, stReady, site)
		}
	}
	snaps.VerifLockHandler = func(site string, try func() bool, lock func()) {
		t := s.cur()
		if t == nil {
			lock()
			return
		}
		mtx, write := lockSite(site)
		// two mutexes may be written the same way in the source (`l.Lock()` on a per-file
		// lock): tell them apart by the receiver bound into the method value
		mtx = fmt.Sprintf("%s@%x", mtx, boundReceiver(lock))
		if write {
			s.mu.Lock()
			s.pendingW[mtx]++
			s.mu.Unlock()
		}
		for {
			s.parkHere(t, stReady, site)
			s.mu.Lock()
			blocked := !write && s.pendingW[mtx] > 0
			s.mu.Unlock()
			if !blocked && try() {
				if write {
					s.mu.Lock()
					s.pendingW[mtx]--
					s.mu.Unlock()
				}
				return
			}
			s.parkHere(t, stLockWait, site)
		}
	}
	snaps.VerifUnlockedHandler = func(site string) {
		if s.cur() == nil {
			return
		}
		s.mu.Lock()
		for _, t := range s.tasks {
			if t.st == stLockWait {
				t.st = stReady
			}
		}
		s.mu.Unlock()
	}
}

func Uninstall() {
	snaps.VerifPointHandler, snaps.VerifLockHandler, snaps.VerifUnlockedHandler = nil, nil, nil
}

// Run executes the task bodies under the strategy until all are done.
func (s *Sched) Run(bodies []func(), strat Strategy, maxSteps int) {
	s.tasks = nil
	for i, body := range bodies {
		t := &task{id: i, grant: make(chan struct{}), park: make(chan parkInfo)}
		s.tasks = append(s.tasks, t)
		started := make(chan struct{})
		go func(t *task, body func()) {
			s.mu.Lock()
			s.byGID[gid()] = t
			s.mu.Unlock()
			close(started)
			s.parkHere(t, stReady, "start")
			body()
			t.park <- parkInfo{stDone, "done"}
		}(t, body)
		<-started
		p := <-t.park
		t.st, t.site = p.st, p.site
	}
	for step := 0; ; step++ {
		s.mu.Lock()
		var runnable []int
		waiting := 0
		for _, t := range s.tasks {
			switch t.st {
			case stReady:
				runnable = append(runnable, t.id)
			case stLockWait:
				waiting++
			}
		}
		s.mu.Unlock()
		if len(runnable) == 0 {
			if waiting > 0 {
				s.Dead = true
			}
			return
		}
		if step >= maxSteps {
			s.Stalled = fmt.Sprintf("more than %d steps", maxSteps)
			// drain: let everything finish in task order so goroutines do not leak
			strat = func(int, []int, *Sched) int { return 0 }
		}
		pick := strat(step, runnable, s)
		if pick < 0 || pick >= len(runnable) {
			pick = 0
		}
		t := s.tasks[runnable[pick]]
		s.Grants = append(s.Grants, Grant{t.id, t.site})
		s.Sites[t.site]++
		t.steps++
		t.grant <- struct{}{}
		var p parkInfo
		select {
		case p = <-t.park:
		case <-time.After(60 * time.Second):
			s.Stalled = fmt.Sprintf("task %d did not reach a point within 60s after %q", t.id, t.site)
			return
		}
		s.mu.Lock()
		t.st, t.site = p.st, p.site
		s.mu.Unlock()
	}
}

// ---- strategies

// ReplayStrategy feeds a recorded grant list back.
func ReplayStrategy(grants []Grant, diverged *bool) Strategy {
	return func(step int, runnable []int, s *Sched) int {
		if step < len(grants) {
			for i, id := range runnable {
				if id == grants[step].Task {
					return i
				}
			}
			*diverged = true
		}
		return 0
	}
}

// PCTStrategy: random priorities with d priority change points.
func PCTStrategy(r *rand.Rand, ntasks, d, horizon int) Strategy {
	prio := r.Perm(ntasks)
	change := map[int]bool{}
	for i := 0; i < d; i++ {
		change[r.IntN(horizon)] = true
	}
	low := -1
	last := -1
	return func(step int, runnable []int, s *Sched) int {
		if change[step] && last >= 0 {
			prio[last] = low
			low--
		}
		best := 0
		for i, id := range runnable {
			if prio[id] > prio[runnable[best]] {
				best = i
			}
		}
		last = runnable[best]
		return best
	}
}

// RandomStrategy picks uniformly.
func RandomStrategy(r *rand.Rand) Strategy {
	return func(step int, runnable []int, s *Sched) int { return r.IntN(len(runnable)) }
}

// TwoCutStrategy: Y runs j steps, X runs k steps, Y to completion, X to
// completion, then the remaining tasks in order. It is the smallest shape that
// can put one task's write inside another task's read->write window.
func TwoCutStrategy(x, y, j, k int) Strategy {
	ySteps, xSteps := 0, 0
	has := func(runnable []int, id int) int {
		for i, v := range runnable {
			if v == id {
				return i
			}
		}
		return -1
	}
	return func(step int, runnable []int, s *Sched) int {
		if ySteps < j {
			if i := has(runnable, y); i >= 0 {
				ySteps++
				return i
			}
		}
		if xSteps < k {
			if i := has(runnable, x); i >= 0 {
				xSteps++
				return i
			}
		}
		if i := has(runnable, y); i >= 0 {
			return i
		}
		if i := has(runnable, x); i >= 0 {
			return i
		}
		return 0
	}
}

// ParkedSite returns the site task id is currently parked at.
func (s *Sched) ParkedSite(id int) string {
	s.mu.Lock()
	defer s.mu.Unlock()
	return s.tasks[id].site
}

// SiteCutStrategy: Y runs until it is parked for the yOcc-th time at a site
// containing ySite, then X runs until parked for the xOcc-th time at a site
// containing xSite, then Y to completion, then X, then the rest. This places one
// task's next operation exactly inside a chosen window of another task.
func SiteCutStrategy(x, y int, ySite string, yOcc int, xSite string, xOcc int) Strategy {
	phase := 0
	ySeen, xSeen := 0, 0
	lastY, lastX := -1, -1
	has := func(runnable []int, id int) int {
		for i, v := range runnable {
			if v == id {
				return i
			}
		}
		return -1
	}
	return func(step int, runnable []int, s *Sched) int {
		if phase == 0 {
			if i := has(runnable, y); i >= 0 {
				if strings.Contains(s.ParkedSite(y), ySite) && s.tasks[y].steps != lastY {
					lastY = s.tasks[y].steps
					ySeen++
				}
				if ySeen < yOcc {
					return i
				}
			}
			phase = 1
		}
		if phase == 1 {
			if i := has(runnable, x); i >= 0 {
				if strings.Contains(s.ParkedSite(x), xSite) && s.tasks[x].steps != lastX {
					lastX = s.tasks[x].steps
					xSeen++
				}
				if xSeen < xOcc {
					return i
				}
			}
			phase = 2
		}
		if i := has(runnable, y); i >= 0 {
			return i
		}
		if i := has(runnable, x); i >= 0 {
			return i
		}
		return 0
	}
}

// ---- free-running delay injection

// InstallDelays makes every point sleep with probability p for up to maxUS
// microseconds, from a seeded PRNG (guarded by a mutex: the monitor must not be
// the race).
func InstallDelays(seed uint64, p float64, maxUS int) func() map[string]int {
	var mu sync.Mutex
	r := rand.New(rand.NewPCG(seed, 99))
	hits := map[string]int{}
	nap := func(site string) {
		mu.Lock()
		hits[site]++
		d := 0
		if r.Float64() < p {
			d = 1 + r.IntN(maxUS)
		}
		mu.Unlock()
		if d > 0 {
			time.Sleep(time.Duration(d) * time.Microsecond)
		} else {
			runtime.Gosched()
		}
	}
	snaps.VerifPointHandler = nap
	snaps.VerifLockHandler = func(site string, try func() bool, lock func()) {
		nap(site)
		lock()
	}
	snaps.VerifUnlockedHandler = func(site string) { nap(site) }
	return func() map[string]int {
		mu.Lock()
		defer mu.Unlock()
		out := map[string]int{}
		for k, v := range hits {
			out[k] = v
		}
		return out
	}
}
