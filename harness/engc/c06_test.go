package engc

import (
	"encoding/json"
	"fmt"
	"math/rand/v2"
	"os"
	"os/signal"
	"path/filepath"
	"runtime"
	"strings"
	"sync"
	"sync/atomic"
	"syscall"
	"time"

	"github.com/anishathalye/porcupine"
	"github.com/gkampitakis/go-snaps/snaps"

	"verifharness/vkit"
)

func init() {
	register("C06", checkC06)
	// a write beyond RLIMIT_FSIZE must return EFBIG instead of killing the process
	signal.Ignore(syscall.SIGXFSZ)
	syscall.Getrlimit(syscall.RLIMIT_FSIZE, &fsizeOrig)
}

var fsizeOrig syscall.Rlimit

// failedWriteFirst: before the tasks start, one create into another file of the directory
// fails at its write (the disk is full for that one call: RLIMIT_FSIZE 0); whatever the
// library keeps from that call must not matter to the calls that follow.
func failedWriteFirst(root string) {
	syscall.Setrlimit(syscall.RLIMIT_FSIZE, &syscall.Rlimit{Cur: 0, Max: fsizeOrig.Max})
	defer syscall.Setrlimit(syscall.RLIMIT_FSIZE, &fsizeOrig)
	t := vkit.NewT("TestFull")
	snaps.WithConfig(snaps.Dir(root), snaps.Filename("full")).MatchSnapshot(t, "the disk is full while this is written")
	t.Take()
	t.Finish()
}

// ---- workload

type wCall struct {
	Kind string `json:"kind"` // create | match | mismatch | update
	Val  string `json:"val"`
	API  string `json:"api"`            // snap | json | yaml
	Form string `json:"form,omitempty"` // "value": the JSON document is handed over as a Go value
}

type wTask struct {
	Test  string  `json:"test"`
	Calls []wCall `json:"calls"`
	Execs int     `json:"execs"`
	Extra string  `json:"extra,omitempty"` // "skip": also calls snaps.Skip on a side T; "standalone": one standalone call
}

type workload struct {
	Tasks []wTask           `json:"tasks"`
	Pre   []vkit.SnapEntry  `json:"pre"`    // file content before the run (in order)
	Seed  map[string]string `json:"seeded"` // slot id -> stored text before the run
	// Link: tasks with an odd index reach the same directory through a symbolic link
	// (another spelling of the same file: state keyed by the path string would split)
	Link bool `json:"link,omitempty"`
	// FailedWrite: before the tasks start a create into another file fails at its write
	FailedWrite bool `json:"failed_write_first,omitempty"`
}

func valFor(api, tag string) (input, stored string) {
	switch api {
	case "json":
		return fmt.Sprintf(`{"v":%q}`, tag), fmt.Sprintf("{\n \"v\": %q\n}", tag)
	case "yaml":
		return fmt.Sprintf("v: %q\n", tag), fmt.Sprintf("v: %q\n", tag)
	}
	return "value " + tag, "value " + tag
}

func genWorkload(r *rand.Rand, ntasks int) *workload {
	w := &workload{Seed: map[string]string{}}
	w.Pre = append(w.Pre, vkit.SnapEntry{ID: "TestPre - 1", Body: "untouched first\nsecond line"})
	w.Seed["TestPre - 1"] = "untouched first\nsecond line"
	for i := 0; i < ntasks; i++ {
		t := wTask{Test: fmt.Sprintf("TestT%d", i), Execs: 1}
		if r.IntN(5) == 0 {
			t.Execs = 2
		}
		nc := 1 + r.IntN(3)
		for k := 1; k <= nc; k++ {
			api := []string{"snap", "snap", "json", "yaml"}[r.IntN(4)]
			kind := []string{"create", "match", "mismatch", "mismatch", "update", "update", "create"}[r.IntN(7)]
			id := vkit.SlotID(t.Test, k)
			oldIn, oldStored := valFor(api, id+" old")
			// every variant of a slot's value has the same length: a rewrite then leaves the
			// file size unchanged, which is what size/mtime based "did anything change" shortcuts rely on
			_ = oldIn
			c := wCall{Kind: kind, API: api}
			if api == "json" && r.IntN(2) == 0 {
				c.Form = "value"
			}
			switch kind {
			case "create":
				c.Val, _ = valFor(api, id+" new")
				if api == "snap" && r.IntN(5) == 0 {
					// an entry around the sizes at which buffered writers change their behaviour
					// (4 KiB, 64 KiB) or well beyond: it must still reach the file as one step
					// of the serial order
					n := []int{4000, 4096, 4200, 65400, 65536, 65600, 70000, 200000}[r.IntN(8)]
					c.Val += " " + strings.Repeat("B", n)
				}
			case "match":
				c.Val = oldIn
				w.Seed[id] = oldStored
			default:
				c.Val, _ = valFor(api, id+[]string{" chg", " chg", " changed to something longer"}[r.IntN(3)])
				w.Seed[id] = oldStored
			}
			if _, ok := w.Seed[id]; ok {
				w.Pre = append(w.Pre, vkit.SnapEntry{ID: id, Body: oldStored})
			}
			t.Calls = append(t.Calls, c)
		}
		switch r.IntN(10) {
		case 0:
			t.Extra = "skip"
		case 1:
			t.Extra = "standalone"
		case 2:
			// a call whose snapshot directory cannot be created (a regular file is in the way):
			// it fails, and nothing it held may stay held
			t.Extra = "blocked-dir"
		}
		w.Tasks = append(w.Tasks, t)
	}
	w.Pre = append(w.Pre, vkit.SnapEntry{ID: "TestPre - 2", Body: "untouched last"})
	w.Seed["TestPre - 2"] = "untouched last"
	r.Shuffle(len(w.Pre), func(i, j int) { w.Pre[i], w.Pre[j] = w.Pre[j], w.Pre[i] })
	if r.IntN(4) == 0 {
		// two tasks update neighbouring entries, and the new value of the first has - on the
		// very line where the second entry's header stands now - a line equal to that header
		type ref struct {
			task, call int
			id         string
		}
		var ups []ref
		for ti, t := range w.Tasks {
			ord := 0
			for ci, cl := range t.Calls {
				ord++
				if cl.Kind == "update" && cl.API == "snap" && t.Execs == 1 {
					ups = append(ups, ref{ti, ci, vkit.SlotID(t.Test, ord)})
				}
			}
		}
		for x := 0; x < len(ups); x++ {
			for y := 0; y < len(ups); y++ {
				a, b := ups[x], ups[y]
				if a.task == b.task {
					continue
				}
				pa, pb := -1, -1
				for k, e := range w.Pre {
					if e.ID == a.id {
						pa = k
					}
					if e.ID == b.id {
						pb = k
					}
				}
				if pa < 0 || pb < 0 || strings.Contains(w.Pre[pa].Body, "\n") {
					continue
				}
				// move b's entry right behind a's
				eb := w.Pre[pb]
				w.Pre = append(w.Pre[:pb], w.Pre[pb+1:]...)
				if pb < pa {
					pa--
				}
				w.Pre = append(w.Pre[:pa+1], append([]vkit.SnapEntry{eb}, w.Pre[pa+1:]...)...)
				w.Tasks[a.task].Calls[a.call].Val = "grew to five lines\nsecond\nthird\n[" + b.id + "]\nfifth"
				x, y = len(ups), len(ups)
			}
		}
	}
	w.Link = r.IntN(2) == 0
	w.FailedWrite = r.IntN(4) == 0
	return w
}

// ---- history

type opIn struct {
	Kind      string // seed | call | final
	Slot      string
	Text      string // formatted text of the call / seeded text
	MayCreate bool
	MayUpdate bool
}

type opOut struct {
	Outcome string
	Count   int
	Text    string
}

type slotState struct {
	Present bool
	Text    string
}

var slotModel = porcupine.Model{
	Partition: func(h []porcupine.Operation) [][]porcupine.Operation {
		m := map[string][]porcupine.Operation{}
		var keys []string
		for _, o := range h {
			k := o.Input.(opIn).Slot
			if _, ok := m[k]; !ok {
				keys = append(keys, k)
			}
			m[k] = append(m[k], o)
		}
		out := make([][]porcupine.Operation, 0, len(keys))
		for _, k := range keys {
			out = append(out, m[k])
		}
		return out
	},
	Init: func() interface{} { return slotState{} },
	Step: func(state, input, output interface{}) (bool, interface{}) {
		st, in, out := state.(slotState), input.(opIn), output.(opOut)
		switch in.Kind {
		case "seed":
			return true, slotState{true, in.Text}
		case "final":
			if st.Present {
				return out.Count == 1 && out.Text == st.Text, st
			}
			return out.Count == 0, st
		}
		if !st.Present {
			if in.MayCreate {
				return out.Outcome == vkit.Added, slotState{true, in.Text}
			}
			return out.Outcome == vkit.Failed, st
		}
		if st.Text == in.Text {
			return out.Outcome == vkit.Passed, st
		}
		if in.MayUpdate {
			return out.Outcome == vkit.Updated, slotState{true, in.Text}
		}
		return out.Outcome == vkit.Failed, st
	},
	DescribeOperation: func(input, output interface{}) string {
		in, out := input.(opIn), output.(opOut)
		return fmt.Sprintf("%s(%s,%q)->%s/%d", in.Kind, in.Slot, vkit.Clip(in.Text, 30), out.Outcome, out.Count)
	},
}

type recorder struct {
	mu    sync.Mutex
	clock int64
	ops   []porcupine.Operation
}

func (h *recorder) tick() int64 { return atomic.AddInt64(&h.clock, 1) }

func (h *recorder) add(o porcupine.Operation) {
	h.mu.Lock()
	h.ops = append(h.ops, o)
	h.mu.Unlock()
}

// runTask is the body of one task: the test's executions with their calls.
func runTask(root string, cfg *snaps.Config, t wTask, client int, h *recorder, outcomes *[]string, mu *sync.Mutex) {
	for e := 0; e < t.Execs; e++ {
		tt := vkit.NewT(t.Test)
		for k, c := range t.Calls {
			id := vkit.SlotID(t.Test, k+1)
			_, stored := valFor(c.API, "")
			_ = stored
			in := opIn{Kind: "call", Slot: id, MayCreate: true, MayUpdate: c.Kind == "update"}
			// formatted text of this call
			switch c.API {
			case "json":
				var v struct{ V string }
				json.Unmarshal([]byte(c.Val), &v)
				in.Text = fmt.Sprintf("{\n \"v\": %q\n}", v.V)
			default:
				in.Text = c.Val
			}
			call := h.tick()
			var use *snaps.Config
			dir, sharedLink := dirFor(root, client)
			if c.Kind == "update" {
				use = snaps.WithConfig(snaps.Dir(dir), snaps.Filename("shared"), snaps.Update(true))
			} else if c.Kind == "mismatch" {
				use = snaps.WithConfig(snaps.Dir(dir), snaps.Filename("shared"), snaps.Update(false))
				in.MayCreate = false
			} else if sharedLink != nil {
				use = sharedLink
			} else {
				use = cfg // the shared Config
			}
			switch c.API {
			case "snap":
				use.MatchSnapshot(tt, c.Val)
			case "json":
				if c.Form == "value" {
					// the same document as a marshalable Go value (padded so that encoder buffers matter)
					var v struct{ V string }
					json.Unmarshal([]byte(c.Val), &v)
					use.MatchJSON(tt, map[string]string{"v": v.V})
				} else {
					use.MatchJSON(tt, c.Val)
				}
			case "yaml":
				use.MatchYAML(tt, c.Val)
			}
			out := vkit.Classify(tt.Take())
			ret := h.tick()
			h.add(porcupine.Operation{ClientId: client, Input: in, Call: call, Output: opOut{Outcome: out}, Return: ret})
			mu.Lock()
			*outcomes = append(*outcomes, fmt.Sprintf("%s:%s", id, out))
			mu.Unlock()
		}
		switch t.Extra {
		case "blocked-dir":
			blocked := snaps.WithConfig(snaps.Dir(filepath.Join(root, "blocker.txt", "sub")), snaps.Filename("shared"))
			bt := vkit.NewT(t.Test + "/blocked")
			blocked.MatchSnapshot(bt, "cannot be stored")
			if o := vkit.Classify(bt.Take()); o != vkit.Failed {
				mu.Lock()
				*outcomes = append(*outcomes, fmt.Sprintf("%s/blocked:%s(!)", t.Test, o))
				mu.Unlock()
			}
			bt.Finish()
		case "skip":
			side := vkit.NewT(t.Test + "/side")
			snaps.Skip(side, "side skip")
		case "standalone":
			cfg.MatchStandaloneJSON(tt, `{"standalone":true}`)
			cfg.MatchStandaloneSnapshot(tt, "alone")
			tt.Take()
		}
		tt.Finish()
	}
}

// judge runs the offline checkers over the recorded history and the final file.
func judge(c *vkit.Ctx, w *workload, h *recorder, path string, in map[string]any) (kind, detail string) {
	ents, torn := vkit.ReadSnapFile(path)
	if len(torn) > 0 {
		return "file-torn", strings.Join(torn, "; ")
	}
	ops := append([]porcupine.Operation(nil), h.ops...)
	end := h.tick()
	// seeds at time 0, final reads after quiescence
	slots := map[string]bool{}
	for id, text := range w.Seed {
		ops = append(ops, porcupine.Operation{ClientId: 1000, Input: opIn{Kind: "seed", Slot: id, Text: text}, Call: -2, Output: opOut{}, Return: -1})
		slots[id] = true
	}
	for _, o := range h.ops {
		slots[o.Input.(opIn).Slot] = true
	}
	for _, e := range ents {
		if !slots[e.ID] {
			return "unexpected-entry", fmt.Sprintf("[%s] is in the final file but no call addressed it", e.ID)
		}
	}
	n := 0
	for id := range slots {
		idx := vkit.FindEntries(ents, id)
		out := opOut{Count: len(idx)}
		if len(idx) > 0 {
			out.Text = vkit.Unescape(ents[idx[0]].Body)
		}
		n++
		ops = append(ops, porcupine.Operation{ClientId: 2000 + n, Input: opIn{Kind: "final", Slot: id}, Call: end + int64(n), Output: out, Return: end + int64(n) + 1000})
	}
	res, info := porcupine.CheckOperationsVerbose(slotModel, ops, 60*time.Second)
	c.Count("porcupine_operations", len(ops))
	c.Count("porcupine_partitions", len(slots))
	switch res {
	case porcupine.Unknown:
		c.Inconclusive("porcupine timed out")
		return "", ""
	case porcupine.Illegal:
		_ = info
		// name the slot whose sub-history is not explained by any serial order
		for id := range slots {
			var sub []porcupine.Operation
			for _, o := range ops {
				if o.Input.(opIn).Slot == id {
					sub = append(sub, o)
				}
			}
			if porcupine.CheckOperations(slotModel, sub) {
				continue
			}
			var d []string
			for _, o := range sub {
				d = append(d, slotModel.DescribeOperation(o.Input, o.Output))
			}
			return "history-not-serialisable", fmt.Sprintf("slot [%s]: %s", id, strings.Join(d, " ; "))
		}
		return "history-not-serialisable", "no serial order explains the recorded history"
	}
	return "", ""
}

func checkC06(c *vkit.Ctx) {
	c.P.Rule = "case = (workload, schedule): 2-5 task goroutines, each one test execution (some re-executed) with 1-3 Match* calls of kind create/match/mismatch/update (MatchSnapshot/JSON/YAML) on one shared pre-populated file (half of the JSON documents handed over as Go values, values of a slot mostly of equal length so that rewrites keep the file size), some with snaps.Skip, standalone calls and a call whose snapshot directory cannot be created, one Config shared by all tasks (in half of the workloads the odd-numbered tasks reach the directory through a symbolic link and share a second Config); token mode: the real code built from an AST-instrumented overlay of the current sources yields at every file-system/lock operation and a controller grants one task at a time under a seeded strategy (PCT-style priorities with <=3 change points, uniform random, the two-cut family Y^j X^k Y* X* over task pairs, and site-cuts `Y until parked at its n-th <operation>, X until parked at its m-th <operation>, Y*, X*` over 13 operation classes); every grant list is recorded and replayable; oracle: porcupine linearizability check of the recorded call/return history plus one final-read per slot against a sequential slot-store model (partitioned by slot), independent reader on the final file (torn/unexpected/duplicate entries), deadlock detection; a third group of workers runs a -trimpath build of this engine, where the odd-numbered tasks spell the directory relative to the working directory and the others absolute (token schedules, then free-running); free mode (every run, built with -race): the same workloads run unscheduled with seeded random delays at the same points, race reports are counted; non-trivial = schedule with >=1 context switch between another task's file read and its file write (window hit) ; distinct by hash(workload, grant list)"
	c.P.Assumptions = []string{"the instrumenter only adds yield points (syntactic); sites reached are reported", "in token mode the hand-off channels order every step, so data races are looked for only in free mode"}
	if os.Getenv("VERIF_RACE_BUILD") == "1" {
		freeMode(c)
		return
	}
	n := c.N(4000, 600000)
	if trimPart {
		// the -trimpath build of this engine: fewer schedules, then free-running workloads
		n = c.N(800, 60000)
		c.Count("trimpath_build_of_the_engine", 1)
	}
	for i := 0; i < n; i++ {
		if !c.Mine(i) {
			continue
		}
		c.Guard(i, func() { tokenCase(c, i) })
	}
	if trimPart {
		freeMode(c)
	}
}

// cutSites are the operation classes the targeted schedules cut at.
var cutSites = []string{"os.ReadFile", "RLock", "_m.Lock", "os.OpenFile", "f.Stat", "Scan-loop", "f.Truncate", "f.Seek", "f.Write", "os.MkdirAll", "fmt.Fprintf", "s.Lock", "e.Lock"}

var (
	linkMu   sync.Mutex
	linkCfgs = map[string]*snaps.Config{} // root -> shared Config that goes through the second spelling
	linkDirs = map[string]string{}        // root -> second spelling of the directory
	// trimPart: this binary was built with -trimpath (VERIF_PART=trim): the library then takes a
	// relative Dir as relative to the working directory, which gives every directory a relative
	// and an absolute spelling
	trimPart = os.Getenv("VERIF_PART") == "trim"
)

// dirFor: the directory spelling task client uses.
func dirFor(root string, client int) (string, *snaps.Config) {
	linkMu.Lock()
	lc := linkCfgs[root]
	second := linkDirs[root]
	linkMu.Unlock()
	_ = second
	if lc != nil && client%2 == 1 {
		return second, lc
	}
	return root, nil
}

func dropLink(root string) {
	linkMu.Lock()
	delete(linkCfgs, root)
	delete(linkDirs, root)
	linkMu.Unlock()
	os.Remove(root + "-link")
}

func setupFile(w *workload) (root, path string, cfg *snaps.Config) {
	root = vkit.MkScratch("c06")
	path = filepath.Join(root, "shared.snap")
	os.WriteFile(path, []byte(vkit.RenderSnapFile(w.Pre)), 0o644)
	os.WriteFile(filepath.Join(root, "blocker.txt"), []byte("a regular file where a directory is wanted"), 0o644)
	cfg = snaps.WithConfig(snaps.Dir(root), snaps.Filename("shared"), snaps.JSON(snaps.JSONConfig{Indent: " ", SortKeys: true}))
	if trimPart {
		// the relative spelling (relative to the working directory)
		wd, _ := os.Getwd()
		if rel, err := filepath.Rel(wd, root); err == nil {
			w.Link = false
			linkMu.Lock()
			linkDirs[root] = rel
			linkCfgs[root] = snaps.WithConfig(snaps.Dir(rel), snaps.Filename("shared"), snaps.JSON(snaps.JSONConfig{Indent: " ", SortKeys: true}))
			linkMu.Unlock()
		}
	} else if w.Link {
		os.Remove(root + "-link")
		if err := os.Symlink(root, root+"-link"); err != nil {
			w.Link = false
		} else {
			linkMu.Lock()
			linkDirs[root] = root + "-link"
			linkCfgs[root] = snaps.WithConfig(snaps.Dir(root+"-link"), snaps.Filename("shared"), snaps.JSON(snaps.JSONConfig{Indent: " ", SortKeys: true}))
			linkMu.Unlock()
		}
	}
	return
}

func tokenCase(c *vkit.Ctx, i int) {
	r := c.Rand("wl", i/8) // several schedules per workload
	ntasks := 2 + r.IntN(4)
	w := genWorkload(r, ntasks)
	sr := c.Rand("sched", i)
	root, path, cfg := setupFile(w)
	defer os.RemoveAll(root)
	defer dropLink(root)
	snaps.VerifResetProcessState()
	snaps.VerifSetMode(false, "")
	snaps.VerifSetNoColor(r.IntN(2) == 0)
	if w.FailedWrite {
		failedWriteFirst(root)
	}
	h := &recorder{}
	var outcomes []string
	var omu sync.Mutex
	bodies := make([]func(), len(w.Tasks))
	for ti := range w.Tasks {
		ti := ti
		bodies[ti] = func() { runTask(root, cfg, w.Tasks[ti], ti, h, &outcomes, &omu) }
	}
	s := NewSched()
	s.Install()
	var strat Strategy
	var sname string
	switch i % 8 {
	case 0, 1, 2:
		strat, sname = PCTStrategy(sr, ntasks, 1+sr.IntN(3), 60), "pct"
	case 3:
		strat, sname = RandomStrategy(sr), "random"
	case 4, 5:
		x := sr.IntN(ntasks)
		y := sr.IntN(ntasks - 1)
		if y >= x {
			y++
		}
		j, k := 1+sr.IntN(30), 1+sr.IntN(30)
		strat, sname = TwoCutStrategy(x, y, j, k), fmt.Sprintf("two-cut(x=%d,y=%d,j=%d,k=%d)", x, y, j, k)
	default:
		x := sr.IntN(ntasks)
		y := sr.IntN(ntasks - 1)
		if y >= x {
			y++
		}
		ys, xs := cutSites[sr.IntN(len(cutSites))], cutSites[sr.IntN(len(cutSites))]
		yo, xo := 1+sr.IntN(3), 1+sr.IntN(3)
		strat, sname = SiteCutStrategy(x, y, ys, yo, xs, xo), fmt.Sprintf("site-cut(y=%d until %s#%d, x=%d until %s#%d)", y, ys, yo, x, xs, xo)
	}
	if rp := os.Getenv("VERIF_REPLAY_GRANTS"); rp != "" {
		var g []Grant
		json.Unmarshal([]byte(rp), &g)
		div := false
		strat, sname = ReplayStrategy(g, &div), "replay"
	}
	s.Run(bodies, strat, 5000)
	Uninstall()
	in := map[string]any{"workload": w, "strategy": sname, "grants": s.Grants}
	c.Count("schedules", 1)
	c.Count("grants", len(s.Grants))
	c.Count("strategy:"+strings.SplitN(sname, "(", 2)[0], 1)
	for site, n := range s.Sites {
		c.Count("site:"+site, n)
	}
	if s.Dead {
		c.Violate("deadlock", "", fmt.Sprintf("all remaining tasks wait for a lock after %d grants", len(s.Grants)), in)
		return
	}
	if s.Stalled != "" {
		c.Inconclusive("schedule stalled: " + s.Stalled)
		return
	}
	// window hits: a foreign write point granted between a task's read point and its own write point
	hits, switches := windowHits(s.Grants)
	c.Count("window_hits", hits)
	c.Count("context_switches", switches)
	if kind, detail := judge(c, w, h, path, in); kind != "" {
		class := ""
		if kind == "history-not-serialisable" || kind == "unexpected-entry" {
			class = lostAppendClass(s.Grants)
		}
		c.Violate(kind, class, fmt.Sprintf("%s under %s (%d grants, %d window hits): outcomes %v", detail, sname, len(s.Grants), hits, outcomes), in)
		return
	}
	gb, _ := json.Marshal(s.Grants)
	wb, _ := json.Marshal(w)
	c.Case(vkit.Hash(string(wb), string(gb)), hits > 0)
	if i%97 == 0 {
		short := s.Grants
		if len(short) > 40 {
			short = short[:40]
		}
		c.Sample(map[string]any{"tasks": w.Tasks, "strategy": sname, "first_grants": short, "outcomes": outcomes, "window_hits": hits})
	}
}

func isRead(site string) bool {
	return strings.Contains(site, "os.ReadFile") || strings.Contains(site, "Scan-loop")
}
func isWrite(site string) bool {
	return strings.Contains(site, "Fprintf") || strings.Contains(site, ".Write") || strings.Contains(site, "Truncate") || strings.Contains(site, "os.WriteFile")
}

// windowHits counts foreign write grants that fall between a task's read grant
// and that task's next write grant, and the number of context switches.
func windowHits(g []Grant) (hits, switches int) {
	open := map[int]bool{}
	for i, x := range g {
		if i > 0 && g[i-1].Task != x.Task {
			switches++
		}
		if isRead(x.Site) {
			open[x.Task] = true
		}
		if isWrite(x.Site) {
			for t := range open {
				if t != x.Task && open[t] {
					hits++
				}
			}
			delete(open, x.Task)
		}
	}
	return
}

// lostAppendClass is the predicate of the P-append finding: an append
// (fmt.Fprintf of addNewSnapshot) of one task was granted between the rewrite
// read (Scan-loop inside updateSnapshot, i.e. after its os.OpenFile) and the
// rewrite's Truncate of another task.
func lostAppendClass(g []Grant) string {
	inRewrite := map[int]bool{}
	for _, x := range g {
		switch {
		case strings.Contains(x.Site, "f.Stat") || (strings.Contains(x.Site, "Scan-loop") && inRewrite[x.Task]):
			inRewrite[x.Task] = true
		case strings.Contains(x.Site, "f.Truncate"):
			delete(inRewrite, x.Task)
		case strings.Contains(x.Site, "fmt.Fprintf"):
			for t := range inRewrite {
				if t != x.Task {
					return "append-inside-rewrite-window"
				}
			}
		}
	}
	return ""
}

// freeMode: unscheduled goroutines, seeded delays at the same points, -race build.
func freeMode(c *vkit.Ctx) {
	n := c.N(300, 20000)
	for i := 0; i < n; i++ {
		if !c.Mine(i) {
			continue
		}
		r := c.Rand("wl", i)
		ntasks := 3 + r.IntN(4)
		w := genWorkload(r, ntasks)
		root, path, cfg := setupFile(w)
		snaps.VerifResetProcessState()
		snaps.VerifSetMode(false, "")
		// colours on in half of the runs: failing single-line comparisons then take the inline-highlight path
		snaps.VerifSetNoColor(i%2 == 0)
		if w.FailedWrite {
			failedWriteFirst(root)
		}
		h := &recorder{}
		var outcomes []string
		var omu sync.Mutex
		sitesFn := InstallDelays(uint64(c.P.Seed)*7919+uint64(i), 0.3, 200)
		var wg sync.WaitGroup
		for ti := range w.Tasks {
			wg.Add(1)
			go func(ti int) {
				defer wg.Done()
				runTask(root, cfg, w.Tasks[ti], ti, h, &outcomes, &omu)
			}(ti)
		}
		done := make(chan struct{})
		go func() { wg.Wait(); close(done) }()
		select {
		case <-done:
		case <-time.After(180 * time.Second):
			// wall-clock watchdog: not a verdict. The calls are stuck inside the library (its
			// global lock may be held), so this worker cannot run further workloads.
			buf := make([]byte, 1<<16)
			buf = buf[:runtime.Stack(buf, true)]
			c.Inconclusive(fmt.Sprintf("free-running workload %d did not finish within 180 s; goroutines:\n%s", i, vkit.Clip(string(buf), 4000)))
			return
		}
		Uninstall()
		in := map[string]any{"workload": w, "mode": "free-running"}
		for site, k := range sitesFn() {
			c.Count("free_site:"+site, k)
		}
		c.Count("free_runs", 1)
		if kind, detail := judge(c, w, h, path, in); kind != "" {
			c.Violate(kind, "", fmt.Sprintf("free-running: %s; outcomes %v", detail, outcomes), in)
		}
		os.RemoveAll(root)
		dropLink(root)
		wb, _ := json.Marshal(w)
		c.Case(vkit.Hash("free", string(wb), i), true)
		if i%31 == 0 {
			c.Sample(map[string]any{"mode": "free-running under -race", "tasks": w.Tasks, "outcomes": outcomes})
		}
	}
}
