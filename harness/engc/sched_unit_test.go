//go:build verif

package engc

import (
	"sync"
	"testing"
	"unsafe"
)

// boundReceiver must tell two mutexes apart and recognise the same one again.
func TestBoundReceiver(t *testing.T) {
	var a, b sync.RWMutex
	ra, ra2, rb := boundReceiver(a.Lock), boundReceiver(a.RLock), boundReceiver(b.Lock)
	if ra != uintptr(unsafe.Pointer(&a)) || ra2 != ra || rb != uintptr(unsafe.Pointer(&b)) || ra == rb {
		t.Fatalf("receivers: a.Lock=%x a.RLock=%x b.Lock=%x, &a=%p &b=%p", ra, ra2, rb, &a, &b)
	}
}
