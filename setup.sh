#!/bin/bash
# Run once after a fresh restore, offline: builds the orchestrator and warms the Go build cache.
set -e
export GOFLAGS=-mod=mod GOPROXY=off GOSUMDB=off GOTOOLCHAIN=local
cd "$(dirname "$0")"
mkdir -p .build evidence replays
cd harness
go build -o ../.build/vcheck ./cmd/vcheck
for p in enga engb engc; do
  go test -c -tags verif -vet=off -o ../.build/warm.test ./$p >/dev/null 2>&1 || true
done
for p in enga engc; do
  go test -c -race -tags verif -vet=off -o ../.build/warm.test ./$p >/dev/null 2>&1 || true
done
rm -f ../.build/warm.test
(go test -vet=off -count=1 ./vkit/ >/dev/null 2>&1 && echo "vkit unit tests ok") || echo "WARNING: vkit unit tests failed"
(go test -tags verif -vet=off -count=1 -run 'TestBoundReceiver' ./engc/ >/dev/null 2>&1 && echo "engc scheduler unit tests ok") || echo "WARNING: engc scheduler unit tests failed (lock model falls back to source text)"
echo "setup ok"
