#!/bin/bash
# sweep.sh <tier> <seeds...> : runs every claimed check for the given seeds, prints one line per run.
# (development aid; the registered commands are ./check <ID> <tier>)
tier=$1; shift
cd "$(dirname "$0")"
ids=$(python3 -c "import json;print(' '.join(c['property_id'] for c in json.load(open('MANIFEST.json'))['checks']))")
for seed in "$@"; do
  for id in $ids; do
    out=$(VERIF_SEED=$seed ./check $id $tier 2>&1); rc=$?
    echo "rc=$rc $(echo "$out" | tail -1)"
    if [ $rc -ne 0 ]; then echo "$out" | grep -E "^(VIOLATION|INCONCLUSIVE|  kind|violations by)" | head -20 | cut -c1-600; fi
  done
done
